package props

import (
	"context"
	"fmt"
	"sync"
	"sync/atomic"
	"time"

	bigbuff "github.com/joeycumines/go-bigbuff"

	"verif/core"
)

// C09 — Exclusive: at most one work function per key at a time; keys are independent.
// C10 — Exclusive: every call is answered by an execution begun after it; none lost.

func init() {
	core.Register(&core.Property{
		ID: "C09",
		Rule: "1-4 keys, 2-24 callers, every call style (Call, CallAfter, CallAsync, CallAfterAsync, Start, StartAfter, CallWithOptions with ExclusiveValue / ExclusiveWork that resolves early and keeps running / never resolves / resolves twice / ExclusiveRateLimit, shuffled option order), waits in {0,50us,2ms}, seeded delays at the excl.* hook sites; " +
			"oracle: a per-key counter incremented when a work function's body is entered and decremented when the work function (incl. wrappers' tails) returns never exceeds 1; independence: key A's work blocks on a gate while calls of every style on key B must complete. " +
			"non-trivial = at least two executions of one key happened and some call was coalesced, or the gate probe ran; distinct = distinct (keys, callers, style mix, executions) signatures",
		Assumptions: []string{"the counter is maintained by an outermost ExclusiveWrapper for CallWithOptions calls and by the supplied function itself for the other styles (decrement slightly early: the sound side)"},
		Families: []core.Family{
			{Name: "mixed-styles", N: core.TierN(800, 40000), Batch: 25, Run: c09Mixed},
			{Name: "independence", N: core.TierN(120, 4800), Batch: 20, Run: c09Independence},
			{Name: "ratelimit-cancel", N: core.TierN(60, 2400), Batch: 20, Run: c09RateLimitCancel},
		},
	})
	core.Register(&core.Property{
		ID: "C10",
		Rule: "the C09 workload; every call supplies its own closure, every execution allocates an id, stamps its start and returns a result that identifies it; offline oracle: exactly one non-nil outcome per blocking/async call (channel then closed), the answering execution has the call's key and a start stamp after the call stamp, " +
			"identical (result, error) for coalesced callers, the executed function's supplier is itself answered by that execution, no supplied function runs twice, non-resolving work yields the resolve-not-called error, every Start/StartAfter is followed by an execution of its key that starts after it, executions <= calls, " +
			"VerifWorkLen()==0 at quiescence and a fresh call then runs a fresh execution. non-trivial = some calls were coalesced (their own function never ran); distinct = distinct (style mix, executions, coalesced) signatures",
		Assumptions: []string{"stamps: call stamp before invoking, start stamp inside the executed function: 'start < call' is then a sound witness of a stale result"},
		Families: []core.Family{
			{Name: "mixed-styles", N: core.TierN(800, 40000), Batch: 25, Run: c10Mixed},
			{Name: "directed-gaps", N: core.TierN(300, 12000), Batch: 20, Run: c10Gaps},
		},
	})
}

func exclParams(c *core.Ctx) (keys, callers, per int) {
	keys = 1 + c.Rng.IntN(4)
	callers = 2 + c.Rng.IntN(23)
	per = 2 + c.Rng.IntN(6)
	c.Param("keys", keys)
	c.Param("callers", callers)
	c.Param("per_caller", per)
	return
}

func c09Mixed(c *core.Ctx) {
	keys, callers, per := exclParams(c)
	p := c.RandomPerturb(exclSites)
	r := runExclusive(c, keys, callers, per)
	p.Stop()
	r.report(c, "mutex")
	// a hang is reported here too (the workload must terminate)
	for _, a := range r.probs {
		if a.Key == "caller-blocked" || a.Key == "no-outcome" {
			c.Violate(a.Key, "%s", firstLineOf(a.Msg))
		}
	}
	sum := r.summary()
	c.Op("call", len(r.calls))
	c.Op("execution", len(r.execs))
	if len(r.execs) > keys && len(r.execs) < len(r.calls) {
		c.Nontrivial()
	}
	c.Sig(sum)
	if c.Index < 2 {
		c.SetHistory(sum)
	}
}

// c09Independence: key A's work is held open; calls of every style on key B must complete meanwhile.
func c09Independence(c *core.Ctx) {
	e := new(bigbuff.Exclusive)
	p := c.RandomPerturb(exclSites)
	defer p.Stop()
	gate := make(chan struct{})
	entered := make(chan struct{})
	aStyle := core.Pick(c.Rng, "Call", "CallAsync", "Start", "Options-early")
	var aDone <-chan struct{}
	switch aStyle {
	case "Call":
		aDone = core.Go(func() {
			e.Call("A", func() (interface{}, error) { close(entered); <-gate; return 1, nil })
		})
	case "CallAsync":
		ch := e.CallAsync("A", func() (interface{}, error) { close(entered); <-gate; return 1, nil })
		aDone = core.Go(func() { <-ch })
	case "Start":
		d := make(chan struct{})
		e.Start("A", func() (interface{}, error) { close(entered); <-gate; close(d); return 1, nil })
		aDone = d
	default:
		d := make(chan struct{})
		e.CallWithOptions(bigbuff.ExclusiveKey("A"), bigbuff.ExclusiveWork(func(resolve func(interface{}, error)) {
			resolve(1, nil)
			close(entered)
			<-gate
			close(d)
		}))
		aDone = d
	}
	if !core.AwaitDone(entered, 5000) {
		c.Violate("call-blocked", "key A's work never started (%s)", aStyle)
		close(gate)
		return
	}
	var wg sync.WaitGroup
	n := 1 + c.Rng.IntN(6)
	results := make([]int, n)
	for i := 0; i < n; i++ {
		i := i
		style := core.Pick(c.Rng, "Call", "CallAfter", "CallAsync", "Options")
		wg.Add(1)
		go func() {
			defer wg.Done()
			fn := func() (interface{}, error) { return 100 + i, nil }
			var v interface{}
			switch style {
			case "Call":
				v, _ = e.Call("B", fn)
			case "CallAfter":
				v, _ = e.CallAfter("B", fn, 50*time.Microsecond)
			case "CallAsync":
				if o := <-e.CallAsync("B", fn); o != nil {
					v = o.Result
				}
			default:
				if o := <-e.CallWithOptions(bigbuff.ExclusiveKey("B"), bigbuff.ExclusiveValue(fn)); o != nil {
					v = o.Result
				}
			}
			results[i], _ = v.(int)
		}()
	}
	ok := core.AwaitDone(core.Go(wg.Wait), 5000)
	if !ok {
		c.Violate("keys-serialised", "%d calls on key B did not complete while key A's work (%s) was held open", n, aStyle)
		c.SetDump(core.DumpAll())
	}
	close(gate)
	if !core.AwaitDone(aDone, 5000) {
		c.Violate("call-blocked", "key A's call did not complete after its work returned")
	}
	if ok {
		for i, v := range results {
			if v < 100 || v >= 100+n {
				c.Violate("wrong-result", "call %d on key B returned %d", i, v)
			}
		}
	}
	c.Op("call", n+1)
	c.Nontrivial()
	c.Sig("indep", aStyle, n)
	if c.Index < 1 {
		c.SetHistory(fmt.Sprintf("A held open via %s; %d calls on B completed=%v", aStyle, n, ok))
	}
}

func c10Mixed(c *core.Ctx) {
	keys, callers, per := exclParams(c)
	p := c.RandomPerturb(exclSites)
	r := runExclusive(c, keys, callers, per)
	p.Stop()
	r.checkAnswers()
	r.report(c, "answer")
	// a fresh call after quiescence runs a fresh execution
	if !c.Violated() {
		before := len(r.execs)
		call := &exCall{id: len(r.calls), key: 0, style: "Call", work: "value"}
		r.calls = append(r.calls, call)
		done := core.Go(func() { r.issue(call, newRand(1)) })
		if !core.AwaitDone(done, 5000) {
			c.Violate("fresh-call-blocked", "a fresh call after quiescence did not return")
		} else if len(r.execs) != before+1 || call.runs.Load() != 1 {
			c.Violate("fresh-call-stale", "a fresh call after quiescence did not run a fresh execution (executions %d -> %d)", before, len(r.execs))
		}
	}
	sum := r.summary()
	c.Op("call", len(r.calls))
	c.Op("execution", len(r.execs))
	if n, _ := sum["calls_whose_function_never_ran"].(int); n > 0 {
		c.Nontrivial()
	}
	c.Sig(sum)
	if c.Index < 2 {
		c.SetHistory(sum)
	}
}

// c10Gaps: calls are aimed at the CallAfter wait and at the resolve-to-return gap of a work function that resolves
// early and lingers: later calls of every style arrive in that gap.
func c10Gaps(c *core.Ctx) {
	r := &exRun{c: c, e: new(bigbuff.Exclusive), keys: 1, active: make([]atomic.Int32, 1), inner: make([]atomic.Int32, 1), workStart: make([]atomic.Int64, 1), rlCtx: context.Background()}
	p := c.RandomPerturb(exclSites)
	defer p.Stop()
	var wg sync.WaitGroup
	spawn := func(style, work string, wait time.Duration, start bool, seed uint64) *exCall {
		call := &exCall{key: 0, style: style, work: work, wait: wait, start: start}
		r.mu.Lock()
		call.id = len(r.calls)
		r.calls = append(r.calls, call)
		r.mu.Unlock()
		wg.Add(1)
		go func() {
			defer wg.Done()
			r.issue(call, newRand(seed))
		}()
		return call
	}
	gap := core.Pick(c.Rng, "callafter-wait", "resolve-to-return")
	var first *exCall
	if gap == "callafter-wait" {
		first = spawn(core.Pick(c.Rng, "CallAfter", "CallAfterAsync", "StartAfter", "Options"), "value", 2*time.Millisecond, false, c.Rng.Uint64())
		if first.style == "StartAfter" {
			first.start = true
		}
	} else {
		first = spawn("Options", core.Pick(c.Rng, "early", "ratelimit"), 0, false, c.Rng.Uint64())
	}
	// let the first call register / start, then fire the later calls into the gap
	time.Sleep(time.Duration(100+c.Rng.IntN(500)) * time.Microsecond)
	m := 1 + c.Rng.IntN(6)
	for i := 0; i < m; i++ {
		style := exStyles[c.Rng.IntN(len(exStyles))]
		work := "value"
		wait := time.Duration(0)
		start := style == "Start" || style == "StartAfter"
		if style == "Options" {
			work = exWorks[c.Rng.IntN(len(exWorks))]
			start = c.Rng.IntN(4) == 0
		}
		if style == "CallAfter" || style == "CallAfterAsync" || style == "StartAfter" {
			wait = core.Pick(c.Rng, 0, 50*time.Microsecond, time.Millisecond)
		}
		spawn(style, work, wait, start, c.Rng.Uint64())
		if c.Rng.IntN(2) == 0 {
			time.Sleep(time.Duration(c.Rng.IntN(300)) * time.Microsecond)
		}
	}
	if !core.AwaitDone(core.Go(wg.Wait), 30000) {
		c.Violate("caller-blocked", "calls did not finish (gap %s)", gap)
		c.SetDump(core.DumpAll())
		return
	}
	if !core.WaitUntil(10000, func() bool { return r.active[0].Load() == 0 && r.e.VerifWorkLen() == 0 }) {
		c.Violate("state-left", "per-key state remains after quiescence (gap %s)", gap)
	}
	r.checkAnswers()
	r.report(c, "answer")
	c.Op("call", len(r.calls))
	c.Op("execution", len(r.execs))
	if len(r.execs) < len(r.calls) {
		c.Nontrivial()
	}
	c.Param("gap", gap)
	c.Sig(gap, r.summary())
	if c.Index < 1 {
		c.SetHistory(r.summary())
	}
}

// c09RateLimitCancel: the context of an ExclusiveRateLimit wrapper is cancelled while its (slow) work is in flight and
// a call that is not gated by that context follows on the same key: the user's work functions must still not overlap.
func c09RateLimitCancel(c *core.Ctx) {
	e := new(bigbuff.Exclusive)
	p := c.RandomPerturb(exclSites)
	defer p.Stop()
	var active, overlaps atomic.Int32
	work := func(d time.Duration) func() (interface{}, error) {
		return func() (interface{}, error) {
			if active.Add(1) > 1 {
				overlaps.Add(1)
			}
			time.Sleep(d)
			active.Add(-1)
			return 1, nil
		}
	}
	ctx, cancel := context.WithCancel(context.Background())
	defer cancel()
	slow := time.Duration(300+c.Rng.IntN(700)) * time.Microsecond
	first := e.CallWithOptions(bigbuff.ExclusiveKey("k"), bigbuff.ExclusiveValue(work(slow)), bigbuff.ExclusiveRateLimit(ctx, time.Duration(100+c.Rng.IntN(2000))*time.Microsecond))
	time.Sleep(time.Duration(50+c.Rng.IntN(200)) * time.Microsecond) // the work is in flight
	cancel()
	n := 1 + c.Rng.IntN(3)
	var wg sync.WaitGroup
	for i := 0; i < n; i++ {
		style := c.Rng.IntN(3)
		wg.Add(1)
		go func() {
			defer wg.Done()
			switch style {
			case 0:
				e.Call("k", work(100*time.Microsecond))
			case 1:
				<-e.CallWithOptions(bigbuff.ExclusiveKey("k"), bigbuff.ExclusiveValue(work(100*time.Microsecond)), bigbuff.ExclusiveRateLimit(context.Background(), 50*time.Microsecond))
			default:
				<-e.CallAsync("k", work(100*time.Microsecond))
			}
		}()
	}
	ok := core.AwaitDone(core.Go(wg.Wait), 10000)
	_, _, got := core.AwaitChan(first, 10000)
	if !ok || !got {
		c.Violate("call-blocked", "calls did not complete after the rate limiter's context was cancelled mid-work")
		c.SetDump(core.DumpAll())
		return
	}
	core.WaitUntil(5000, func() bool { return active.Load() == 0 })
	if overlaps.Load() > 0 {
		c.Violate("overlap", "the rate limiter's context was cancelled while its work was running and %d later work function(s) of the same key started before it had returned", overlaps.Load())
	}
	c.Op("call", n+1)
	c.Nontrivial()
	c.Sig("rlcancel", n)
}
