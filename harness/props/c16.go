package props

import (
	"context"
	"fmt"
	"strings"
	"sync"
	"sync/atomic"
	"time"

	bigbuff "github.com/joeycumines/go-bigbuff"

	"verif/core"
)

// C16 — Context combinators cancel exactly when specified and run hooks exactly once.

type ctxKey string

const c16Bound = 5000

func init() {
	core.Register(&core.Property{
		ID: "C16",
		Rule: "step machine against a reference: CombineContext(primary, n others incl. nil, n<=3) and ConflatedContext(n inputs, n<=4) for every subset pre-cancelled at construction and every order of later cancellations (complete for n<=3; cancel-func step at every position for Conflated), ChainAfterFunc for every pre-cancelled subset x cancel order, " +
			"after each step the expected liveness is checked (synchronously for 'still live' and 'already cancelled at construction', within 5000 heartbeats for 'promptly cancelled'), values checked by distinct keys; simultaneous: both contexts of ChainAfterFunc (and all inputs of the combinators) cancelled by goroutines released from one barrier with chain.primary held so the two hooks overlap, 200 heartbeats of grace before the 'never twice' count is read. " +
			"during-construction: a cancellation lands while the combinator is being built: inputs wrapped in a pass-through Context whose k-th Err()/Done() consultation (k=1..6) cancels another input (or itself), for every (probed input, victim, k); plus 8-48 standard contexts cancelled by a second goroutine racing the constructor. Afterwards the remaining inputs are cancelled one by one: same liveness rules as above (a Conflated result is cancelled once ALL inputs are, a Combine result once ANY is, f exactly once). " +
			"non-trivial = at least one cancellation step happened after construction (or, during-construction, the probe fired inside the constructor); distinct = distinct (combinator, n, pre-cancelled mask, order) cases",
		Assumptions: []string{"standard library contexts and a non-standard Context implementation (manualCtx) are used as inputs", "ConflatedContext inputs are non-nil (the statement allows nil only for CombineContext's others)"},
		Families: []core.Family{
			{Name: "enumerated", N: core.TierN(3, 3), Solo: true, Run: c16Enumerated},
			{Name: "simultaneous", N: core.TierN(80, 3200), Batch: 20, Run: c16Simultaneous},
			{Name: "during-construction", N: core.TierN(240, 9600), Batch: 40, Run: c16DuringConstruction},
		},
	})
}

type c16Input struct {
	ctx    context.Context
	cancel func()
	isNil  bool
	done   bool
}

func c16MakeInput(i int, custom bool, key ctxKey) *c16Input {
	if custom {
		switch i % 3 {
		case 0: // a non-standard Context implementation
			mc := &manualCtx{done: make(chan struct{})}
			return &c16Input{ctx: mc, cancel: mc.cancel}
		case 1: // a context that carries a (far) deadline and is cancelled early, as `defer cancel()` does
			ctx, cancel := context.WithTimeout(context.WithValue(context.Background(), key, i), time.Hour)
			return &c16Input{ctx: ctx, cancel: cancel}
		default: // the child of a deadline context, cancelled through its own cancel func
			parent, pcancel := context.WithDeadline(context.Background(), time.Now().Add(time.Hour))
			ctx, cancel := context.WithCancel(context.WithValue(parent, key, i))
			return &c16Input{ctx: ctx, cancel: func() { cancel(); pcancel() }}
		}
	}
	ctx, cancel := context.WithCancel(context.WithValue(context.Background(), key, i))
	return &c16Input{ctx: ctx, cancel: cancel}
}

func permutations(xs []int) [][]int {
	if len(xs) <= 1 {
		return [][]int{append([]int(nil), xs...)}
	}
	var out [][]int
	for i := range xs {
		rest := append(append([]int(nil), xs[:i]...), xs[i+1:]...)
		for _, p := range permutations(rest) {
			out = append(out, append([]int{xs[i]}, p...))
		}
	}
	return out
}

func c16Enumerated(c *core.Ctx) {
	cases := 0
	switch c.Index {
	case 0: // CombineContext
		for n := 0; n <= 3; n++ {
			for nilMask := 0; nilMask < 1<<n; nilMask++ {
				for pre := 0; pre < 1<<(n+1); pre++ {
					var rest []int
					for i := 0; i <= n; i++ {
						if pre&(1<<i) == 0 && (i == 0 || nilMask&(1<<(i-1)) == 0) {
							rest = append(rest, i)
						}
					}
					if pre>>1&nilMask != 0 {
						continue // a nil other cannot be pre-cancelled
					}
					for _, order := range permutations(rest) {
						cases++
						c16Combine(c, n, nilMask, pre, order, cases%2 == 0)
					}
				}
			}
		}
		// nil primary
		if r := bigbuff.CombineContext(nil); r == nil || r.Err() != nil {
			c.Violate("combine-nil-primary", "CombineContext(nil) returned %v", r)
		}
		c.ExhaustiveFamily("CombineContext: n<=3 others x nil mask x pre-cancelled subset x cancel order", cases)
	case 1: // ConflatedContext
		for n := 1; n <= 3; n++ {
			for pre := 0; pre < 1<<n; pre++ {
				var rest []int
				for i := 0; i < n; i++ {
					if pre&(1<<i) == 0 {
						rest = append(rest, i)
					}
				}
				rest = append(rest, -1) // -1 = call the cancel func
				for _, order := range permutations(rest) {
					cases++
					c16Conflated(c, n, pre, order, cases%2 == 0)
				}
			}
		}
		for n := 1; n <= 3; n++ {
			for which := 0; which < n; which++ {
				cases++
				c16ConflatedForever(c, n, which)
			}
		}
		if pv := core.Recover(func() { bigbuff.ConflatedContext() }); pv == nil {
			c.Violate("conflated-empty", "ConflatedContext() with no inputs did not panic")
		}
		c.ExhaustiveFamily("ConflatedContext: n<=3 inputs x pre-cancelled subset x order of cancellations and the cancel func", cases)
	case 2: // ChainAfterFunc
		for pre := 0; pre < 4; pre++ {
			for _, order := range [][]int{{}, {0}, {1}, {0, 1}, {1, 0}} {
				ok := true
				for _, i := range order {
					if pre&(1<<i) != 0 {
						ok = false
					}
				}
				if !ok {
					continue
				}
				for rep := 0; rep < 20; rep++ {
					cases++
					c16Chain(c, pre, order, rep%2 == 0)
				}
			}
		}
		c.ExhaustiveFamily("ChainAfterFunc: pre-cancelled subset x cancel order (x20 repetitions, std and custom contexts)", cases)
	}
	c16FlushLate(c)
	c.Op("case", cases)
	c.Nontrivial()
	c.Sig("enum", c.Index, cases)
}

func awaitCtx(ctx context.Context) bool { return core.AwaitDone(ctx.Done(), c16Bound) }

func c16Combine(c *core.Ctx, n, nilMask, pre int, order []int, custom bool) {
	desc := fmt.Sprintf("CombineContext n=%d nilMask=%b pre=%b order=%v custom=%v", n, nilMask, pre, order, custom)
	ins := make([]*c16Input, n+1)
	for i := range ins {
		if i > 0 && nilMask&(1<<(i-1)) != 0 {
			ins[i] = &c16Input{isNil: true}
			continue
		}
		ins[i] = c16MakeInput(i, custom && i > 0, ctxKey(fmt.Sprintf("k%d", i)))
		if pre&(1<<i) != 0 {
			ins[i].cancel()
			ins[i].done = true
		}
	}
	others := make([]context.Context, n)
	for i := 1; i <= n; i++ {
		if !ins[i].isNil {
			others[i-1] = ins[i].ctx
		}
	}
	// a nil primary stands for Background: it carries no values (the others' values are never the result's) and
	// cannot be cancelled (the steps that would cancel it are no-ops)
	nilPrimary := !custom && (n+nilMask+pre+len(order))%3 == 0 && pre&1 == 0
	primary := ins[0].ctx
	if nilPrimary {
		primary = nil
		ins[0].cancel = func() {}
	}
	res := bigbuff.CombineContext(primary, others...)
	if nilPrimary {
		desc += " nil-primary"
		for i := 0; i <= n; i++ {
			if v := res.Value(ctxKey(fmt.Sprintf("k%d", i))); v != nil {
				c.Violate("combine-foreign-values", "nil primary: the result exposes value %v of key k%d, which belongs to one of the others (or to nobody); %s", v, i, desc)
				break
			}
		}
	}
	// the caller reuses its slice for a second call: the positions it filled get fresh contexts, the positions it left
	// nil it leaves alone. The second result has nothing to do with the first call's others: cancelling those (the
	// steps below do) must not cancel it.
	var res2 context.Context
	var fresh []*c16Input
	if nilMask != 0 {
		for i := range others {
			if !ins[i+1].isNil { // (decided by what the caller put there, not by what the slice holds now)
				in := c16MakeInput(10+i, false, ctxKey(fmt.Sprintf("r%d", i)))
				fresh = append(fresh, in)
				others[i] = in.ctx
			}
		}
		p2 := c16MakeInput(9, false, "p2")
		fresh = append(fresh, p2)
		res2 = bigbuff.CombineContext(p2.ctx, others...)
		defer func() {
			for _, in := range fresh {
				in.cancel()
			}
		}()
	}
	defer func() {
		for _, in := range ins {
			if !in.isNil {
				in.cancel()
			}
		}
	}()
	if !nilPrimary && res.Value(ctxKey("k0")) != 0 {
		c.Violate("combine-values", "result does not carry the primary's value; %s", desc)
	}
	expect := pre != 0
	if expect && res.Err() == nil {
		c.Violate("combine-not-precancelled", "an input was already cancelled but the result is live at construction; %s", desc)
	}
	if !expect && res.Err() != nil {
		c.Violate("combine-cancelled-early", "no input is cancelled but the result is cancelled at construction; %s", desc)
	}
	anyCancelled := expect
	for step, i := range order {
		ins[i].cancel()
		if nilPrimary && i == 0 {
			if !anyCancelled && res.Err() != nil {
				c.Violate("combine-cancelled-early", "nil primary, no other cancelled, but the result is; %s", desc)
				return
			}
			continue
		}
		anyCancelled = true
		if !awaitCtx(res) {
			c.Violate("combine-not-cancelled", "input %d was cancelled (step %d) but the result is still live; %s", i, step, desc)
			return
		}
	}
	if len(order) == 0 && !expect {
		// nothing cancelled: must stay live (also after a grace period)
		time.Sleep(200 * time.Microsecond)
		if res.Err() != nil {
			c.Violate("combine-cancelled-early", "no input was ever cancelled but the result got cancelled; %s", desc)
		}
	}
	if res2 != nil {
		if len(order) > 0 {
			time.Sleep(200 * time.Microsecond)
		}
		if res2.Err() != nil {
			c.Violate("combine-cancelled-early", "a second CombineContext call, made with the same variadic slice after its non-nil entries had been replaced, was cancelled although none of ITS inputs is (only contexts of the first call were cancelled); %s", desc)
		} else if len(fresh) > 1 {
			fresh[0].cancel()
			if !awaitCtx(res2) {
				c.Violate("combine-not-cancelled", "second call with the reused slice: an other was cancelled but the result is still live; %s", desc)
			}
		}
	}
}

// c16ConflatedForever: one input can never be cancelled (context.Background and friends): the result stays live
// whatever happens to the other inputs, until its own cancel func is called.
func c16ConflatedForever(c *core.Ctx, n, which int) {
	desc := fmt.Sprintf("ConflatedContext n=%d with a never-cancellable input at %d", n, which)
	ins := make([]*c16Input, n)
	ctxs := make([]context.Context, n)
	for i := range ins {
		if i == which {
			var bg context.Context = context.Background()
			if i%2 == 1 {
				bg = context.WithValue(context.WithoutCancel(context.Background()), ctxKey("bg"), 1)
			}
			ins[i] = &c16Input{ctx: bg, cancel: func() {}}
		} else {
			ins[i] = c16MakeInput(i, false, ctxKey(fmt.Sprintf("k%d", i)))
		}
		ctxs[i] = ins[i].ctx
	}
	res, cancel := bigbuff.ConflatedContext(ctxs...)
	defer cancel()
	for i, in := range ins {
		if i != which {
			in.cancel()
		}
	}
	time.Sleep(300 * time.Microsecond)
	core.WaitUntil(20, func() bool { return res.Err() != nil })
	if res.Err() != nil {
		c.Violate("conflated-cancelled-early", "the result was cancelled although one input can never be cancelled (is live forever) and cancel was not called; %s", desc)
		return
	}
	cancel()
	if !awaitCtx(res) {
		c.Violate("conflated-not-cancelled", "cancel func called but the result is live; %s", desc)
	}
}

func c16Conflated(c *core.Ctx, n, pre int, order []int, custom bool) {
	desc := fmt.Sprintf("ConflatedContext n=%d pre=%b order=%v custom=%v", n, pre, order, custom)
	ins := make([]*c16Input, n)
	ctxs := make([]context.Context, n)
	for i := range ins {
		ins[i] = c16MakeInput(i, custom && i > 0, ctxKey(fmt.Sprintf("k%d", i)))
		if pre&(1<<i) != 0 {
			ins[i].cancel()
			ins[i].done = true
		}
		ctxs[i] = ins[i].ctx
	}
	res, cancel := bigbuff.ConflatedContext(ctxs...)
	defer cancel()
	defer func() {
		for _, in := range ins {
			in.cancel()
		}
	}()
	// the variadic slice is the caller's again: overwriting it (here: with an already-cancelled context) must not
	// change what the result depends on
	{
		dead, kill := context.WithCancel(context.Background())
		kill()
		for i := range ctxs {
			ctxs[i] = dead
		}
	}
	if res.Value(ctxKey("k0")) != 0 {
		c.Violate("conflated-values", "result does not carry the first input's value; %s", desc)
	}
	for i := 1; i < n; i++ {
		if !custom && res.Value(ctxKey(fmt.Sprintf("k%d", i))) != nil {
			c.Violate("conflated-foreign-values", "result carries input %d's value; %s", i, desc)
		}
	}
	live := func() int {
		k := 0
		for _, in := range ins {
			if !in.done {
				k++
			}
		}
		return k
	}
	cancelled := live() == 0
	if cancelled && res.Err() == nil {
		c.Violate("conflated-not-precancelled", "every input was already cancelled but the result is live at construction; %s", desc)
	}
	if !cancelled && res.Err() != nil {
		c.Violate("conflated-cancelled-early", "an input is live but the result is cancelled at construction; %s", desc)
	}
	for step, i := range order {
		if i == -1 {
			cancel()
			cancelled = true
		} else {
			ins[i].cancel()
			ins[i].done = true
			if live() == 0 {
				cancelled = true
			}
		}
		if cancelled {
			if !awaitCtx(res) {
				c.Violate("conflated-not-cancelled", "after step %d (%d) the result must be cancelled but is live; %s", step, i, desc)
				return
			}
		} else {
			// (a moment of grace: a wrong cancellation would arrive asynchronously)
			time.Sleep(150 * time.Microsecond)
			if res.Err() != nil {
				c.Violate("conflated-cancelled-early", "after step %d (%d) an input is still live and cancel was not called, but the result is cancelled; %s", step, i, desc)
				return
			}
		}
	}
}

// c16Late collects call counters whose "never twice" clause is read once, after a common grace period.
type c16Late struct {
	calls *atomic.Int32
	desc  string
}

var c16LateChecks []c16Late

func c16FlushLate(c *core.Ctx) {
	if len(c16LateChecks) == 0 {
		return
	}
	core.WaitUntil(200, func() bool { return false }) // 200 heartbeats of grace
	for _, l := range c16LateChecks {
		if n := l.calls.Load(); n > 1 {
			c.Violate("chain-called-twice", "f was called %d times; %s", n, l.desc)
		}
	}
	c16LateChecks = nil
}

func c16Chain(c *core.Ctx, pre int, order []int, custom bool) {
	desc := fmt.Sprintf("ChainAfterFunc pre=%b order=%v custom=%v", pre, order, custom)
	a := c16MakeInput(0, false, "a")
	b := c16MakeInput(1, custom, "b")
	defer a.cancel()
	defer b.cancel()
	ins := []*c16Input{a, b}
	for i, in := range ins {
		if pre&(1<<i) != 0 {
			in.cancel()
		}
	}
	calls := new(atomic.Int32)
	bigbuff.ChainAfterFunc(a.ctx, b.ctx, func() { calls.Add(1) })
	any := pre != 0
	if !any && calls.Load() != 0 {
		c.Violate("chain-called-early", "f was called although neither context is cancelled; %s", desc)
	}
	for _, i := range order {
		if !any {
			time.Sleep(50 * time.Microsecond)
			if calls.Load() != 0 {
				c.Violate("chain-called-early", "f was called although neither context is cancelled; %s", desc)
			}
		}
		ins[i].cancel()
		any = true
	}
	if any {
		if !core.WaitUntil(c16Bound, func() bool { return calls.Load() >= 1 }) {
			c.Violate("chain-not-called", "a context was cancelled but f was never called; %s", desc)
			return
		}
		if n := calls.Load(); n != 1 {
			c.Violate("chain-called-twice", "f was called %d times; %s", n, desc)
		}
		c16LateChecks = append(c16LateChecks, c16Late{calls, desc})
	} else {
		time.Sleep(100 * time.Microsecond)
		if calls.Load() != 0 {
			c.Violate("chain-called-early", "f was called although neither context was ever cancelled; %s", desc)
		}
	}
}

// c16Simultaneous: all cancellations released from one barrier; chain.primary is held so that the two hooks overlap.
func c16Simultaneous(c *core.Ctx) {
	p := c.NewPerturb(core.PerturbOpts{P: core.Pick(c.Rng, 0, 0.2), Hot: map[string]float64{"chain.primary": core.Pick(c.Rng, 0.5, 1.0)}, HotSleep: core.Pick(c.Rng, 20*time.Microsecond, 200*time.Microsecond)})
	defer p.Stop()
	iters := 200
	if c.Thorough() {
		iters = 600
	}
	twice, none := 0, 0
	for it := 0; it < iters && !c.Violated(); it++ {
		kind := it % 3
		n := 2 + c.Rng.IntN(3)
		ins := make([]*c16Input, n)
		ctxs := make([]context.Context, n)
		for i := range ins {
			ins[i] = c16MakeInput(i, c.Rng.IntN(3) == 0 && i > 0, ctxKey(fmt.Sprintf("k%d", i)))
			ctxs[i] = ins[i].ctx
		}
		calls := new(atomic.Int32)
		var res context.Context
		var cancel context.CancelFunc
		switch kind {
		case 0:
			bigbuff.ChainAfterFunc(ctxs[0], ctxs[1], func() { calls.Add(1) })
			n = 2
		case 1:
			res = bigbuff.CombineContext(ctxs[0], ctxs[1:]...)
		case 2:
			res, cancel = bigbuff.ConflatedContext(ctxs...)
		}
		var wg sync.WaitGroup
		barrier := make(chan struct{})
		for i := 0; i < n; i++ {
			i := i
			wg.Add(1)
			go func() { defer wg.Done(); <-barrier; ins[i].cancel() }()
		}
		close(barrier)
		wg.Wait()
		switch kind {
		case 0:
			if !core.WaitUntil(c16Bound, func() bool { return calls.Load() >= 1 }) {
				c.Violate("chain-not-called", "both contexts were cancelled simultaneously but f was never called (iteration %d)", it)
				none++
			}
			if k := calls.Load(); k > 1 {
				c.Violate("chain-called-twice", "both contexts were cancelled simultaneously and f was called %d times (iteration %d)", k, it)
				twice++
			}
			c16LateChecks = append(c16LateChecks, c16Late{calls, fmt.Sprintf("simultaneous cancellation, iteration %d", it)})
		default:
			if !awaitCtx(res) {
				c.Violate("not-cancelled", "all inputs were cancelled simultaneously but the result (kind %d) is still live (iteration %d)", kind, it)
			}
			if cancel != nil {
				cancel()
			}
		}
		for _, in := range ins {
			in.cancel()
		}
	}
	c16FlushLate(c)
	c.Op("simultaneous_cancel", iters)
	c.Count("chain_primary_hits", int(p.Hits("chain.primary")))
	if p.Hits("chain.primary") > 0 {
		c.Nontrivial()
	}
	c.Sig("simul", c.Index, p.Hits("chain.primary") > 0)
}

// c16Probe is a pass-through Context: it adds nothing and hides nothing, but its k-th consultation (Err or Done) runs
// fire first. Placed on an input of a combinator it puts a cancellation of another input at an exact point inside the
// constructor (the client-side equivalent of a hook between two of its statements).
type c16Probe struct {
	context.Context
	st *c16ProbeState
}

type c16ProbeState struct {
	mu    sync.Mutex
	calls int32
	at    int32
	fire  func()
	fired bool
	off   bool
}

func (p c16Probe) hit() {
	st := p.st
	st.mu.Lock()
	st.calls++
	if !st.off && !st.fired && st.calls == st.at {
		st.fired = true
		st.fire() // completes before any disarm() returns
	}
	st.mu.Unlock()
}

// disarm switches the probe off and reports whether it has fired (completely) before.
func (st *c16ProbeState) disarm() bool {
	st.mu.Lock()
	defer st.mu.Unlock()
	st.off = true
	return st.fired
}

func (p c16Probe) Err() error            { p.hit(); return p.Context.Err() }
func (p c16Probe) Done() <-chan struct{} { p.hit(); return p.Context.Done() }

func c16DuringConstruction(c *core.Ctx) {
	mode := []string{"conflated", "combine", "chain", "stress-conflated", "stress-combine"}[c.Index%5]
	j := c.Index / 5
	switch mode {
	case "conflated", "combine":
		n := 2 + j%2 // inputs (Conflated) / primary + others (Combine)
		j /= 2
		probed := j % n
		j /= n
		victim := j % n
		j /= n
		at := int32(1 + j%6)
		desc := fmt.Sprintf("%s n=%d: consultation %d of input %d cancels input %d", mode, n, at, probed, victim)
		ins := make([]*c16Input, n)
		ctxs := make([]context.Context, n)
		for i := range ins {
			ins[i] = c16MakeInput(i, false, ctxKey(fmt.Sprintf("k%d", i)))
			ctxs[i] = ins[i].ctx
		}
		defer func() {
			for _, in := range ins {
				in.cancel()
			}
		}()
		st := &c16ProbeState{at: at, fire: func() { ins[victim].cancel() }}
		ctxs[probed] = c16Probe{Context: ins[probed].ctx, st: st}
		var res context.Context
		if mode == "conflated" {
			var cancel context.CancelFunc
			res, cancel = bigbuff.ConflatedContext(ctxs...)
			defer cancel()
		} else {
			res = bigbuff.CombineContext(ctxs[0], ctxs[1:]...)
		}
		inside := st.disarm() // the probe fired while the constructor was running (library goroutines that consult the input later find it switched off)
		if inside {
			ins[victim].done = true
			c.Nontrivial()
			c.R.WinHit++
		} else {
			c.R.WinMissed++
		}
		if mode == "combine" {
			if inside {
				if !awaitCtx(res) {
					c.Violate("combine-not-cancelled", "an input was cancelled while CombineContext was being built, but the result stays live; %s", desc)
					return
				}
			} else if res.Err() != nil {
				c.Violate("combine-cancelled-early", "no input is cancelled but the result is; %s", desc)
			}
			for i := range ins {
				ins[i].cancel()
				if !awaitCtx(res) {
					c.Violate("combine-not-cancelled", "input %d was cancelled but the result is still live; %s", i, desc)
					return
				}
			}
		} else {
			if res.Err() != nil {
				c.Violate("conflated-cancelled-early", "at least one input is live but the result is cancelled at construction; %s", desc)
			}
			order := c.Rng.Perm(n)
			for step, i := range order {
				ins[i].cancel()
				ins[i].done = true
				live := 0
				for _, in := range ins {
					if !in.done {
						live++
					}
				}
				if live == 0 {
					if !awaitCtx(res) {
						c.Violate("conflated-not-cancelled", "every input is cancelled (one of them while ConflatedContext was being built: %v) but the result stays live; %s", inside, desc)
						return
					}
				} else {
					time.Sleep(100 * time.Microsecond)
					if res.Err() != nil {
						c.Violate("conflated-cancelled-early", "after step %d an input is still live but the result is cancelled; %s", step, desc)
						return
					}
				}
			}
		}
		c.Op("construct", 1)
		c.Sig(mode, n, probed, victim, at, inside)
	case "chain":
		probed := j % 2
		j /= 2
		victim := j % 2
		j /= 2
		at := int32(1 + j%6)
		desc := fmt.Sprintf("ChainAfterFunc: consultation %d of context %d cancels context %d", at, probed, victim)
		ins := []*c16Input{c16MakeInput(0, false, "a"), c16MakeInput(1, false, "b")}
		defer ins[0].cancel()
		defer ins[1].cancel()
		ctxs := []context.Context{ins[0].ctx, ins[1].ctx}
		st := &c16ProbeState{at: at, fire: func() { ins[victim].cancel() }}
		ctxs[probed] = c16Probe{Context: ins[probed].ctx, st: st}
		calls := new(atomic.Int32)
		bigbuff.ChainAfterFunc(ctxs[0], ctxs[1], func() { calls.Add(1) })
		inside := st.disarm()
		if inside {
			c.Nontrivial()
			c.R.WinHit++
		} else {
			c.R.WinMissed++
			if calls.Load() != 0 {
				c.Violate("chain-called-early", "f was called although neither context is cancelled; %s", desc)
			}
			ins[c.Rng.IntN(2)].cancel()
		}
		if !core.WaitUntil(c16Bound, func() bool { return calls.Load() >= 1 }) {
			c.Violate("chain-not-called", "a context was cancelled (while ChainAfterFunc was registering: %v) but f was never called; %s", inside, desc)
			return
		}
		ins[0].cancel()
		ins[1].cancel()
		c16LateChecks = append(c16LateChecks, c16Late{calls, desc})
		c16FlushLate(c)
		c.Op("construct", 1)
		c.Sig(mode, probed, victim, at, inside)
	default:
		// standard contexts only: a second goroutine cancels every input while the constructor runs
		n := 8 + c.Rng.IntN(41)
		desc := fmt.Sprintf("%s n=%d", mode, n)
		ins := make([]*c16Input, n)
		ctxs := make([]context.Context, n)
		for i := range ins {
			ins[i] = c16MakeInput(i, false, ctxKey(fmt.Sprintf("k%d", i)))
			ctxs[i] = ins[i].ctx
		}
		start := make(chan struct{})
		order := c.Rng.Perm(n)
		spinBefore := c.Rng.IntN(400)
		cancelled := core.Go(func() {
			<-start
			spin(spinBefore)
			for _, i := range order {
				ins[i].cancel()
			}
		})
		close(start)
		var res context.Context
		if mode == "stress-conflated" {
			var cancel context.CancelFunc
			res, cancel = bigbuff.ConflatedContext(ctxs...)
			defer cancel()
		} else {
			res = bigbuff.CombineContext(ctxs[0], ctxs[1:]...)
		}
		<-cancelled
		if !awaitCtx(res) {
			c.Violate(strings.TrimPrefix(mode, "stress-")+"-not-cancelled", "every input has been cancelled (by a goroutine racing the constructor) but the result stays live; %s", desc)
			return
		}
		c.Op("construct", 1)
		c.Nontrivial()
		c.Sig(mode, n)
	}
}
