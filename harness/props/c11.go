package props

import (
	"context"
	"errors"
	"fmt"
	"sync"
	"sync/atomic"
	"time"

	bigbuff "github.com/joeycumines/go-bigbuff"

	"verif/core"
)

// C11 — Concurrent use of the concurrency-safe types is free of data races.
//
// Race mode: the workloads below use NO shared harness state between operations (no logical clock, no counters, no
// mutexes): every atomic or lock in the harness would add happens-before edges and hide the races looked for.
// Goroutines are joined with a WaitGroup only; the hook handler uses Gosched/Sleep and the runtime's per-thread PRNG.

// Payload is a plain struct handed through the library: written just before hand-over, read just after receipt.
type Payload struct{ A, B int }

//go:noinline
func PayloadWrite(p *Payload, v int) { p.A = v; p.B = v * 2 }

//go:noinline
func PayloadRead(p *Payload) int { return p.A + p.B }

func init() {
	core.Register(&core.Property{
		ID:   "C11",
		Race: true,
		Rule: "one contract-respecting concurrent program generator per type, run under the Go race detector in race mode: Buffer (Put, incl. spread Puts from a scratch slice the producer overwrites once Put has returned,/Get/Commit/Rollback x SetCleanerConfig/CleanerConfig/Slice/Size/Diff/Range/Done/Close/NewConsumer), Channel (Get/Commit/Rollback/Buffer/Done/Close), ChanCaster, ChanPubSub (manual and iterator subscribers, all unsubscribe routes), " +
			"Exclusive (all call styles), Workers (Call/Wrap/Wait/Count), Worker, Notifier (Subscribe*/Unsubscribe/Publish*), WaitCond, Combine/Conflated/ChainAfterFunc, LinearAttempt, ExponentialRetry (one returned function invoked concurrently); payloads are pointers to plain structs written just before hand-over and read just after receipt, so a missing publication edge is itself a reportable race; " +
			"reports are read from the GORACE log files, classified by frames (library function or payload helper on either side => violation; harness-only => harness error) and de-duplicated by the unordered pair of top functions. non-trivial = the program ran at least two goroutines through the type; distinct = distinct (type, parameters) programs",
		Assumptions: []string{
			"a happens-before detector reports only races on executions it sees: held on N programs, never 'race-free'",
			"zero-value Buffers get one completed call before they are shared, as the lazy initialiser documents",
		},
		Families: []core.Family{
			{Name: "buffer", N: core.TierN(48, 1600), Batch: 4, Run: c11Buffer},
			{Name: "channel", N: core.TierN(32, 1200), Batch: 4, Run: c11Channel},
			{Name: "caster-pubsub", N: core.TierN(32, 1200), Batch: 4, Run: c11PubSub},
			{Name: "exclusive-workers-worker", N: core.TierN(32, 1200), Batch: 4, Run: c11Exec},
			{Name: "notifier", N: core.TierN(32, 1200), Batch: 4, Run: c11Notifier},
			{Name: "sync-context-misc", N: core.TierN(32, 1200), Batch: 4, Run: c11Misc},
		},
	})
}

func c11Finish(c *core.Ctx, kind string, ops int, params ...any) {
	core.UninstallHook()
	c.Op(kind+"_op", ops)
	c.Nontrivial()
	c.Sig(kind, params)
	c.Param("program", fmt.Sprint(kind, params))
}

func c11Buffer(c *core.Ctx) {
	core.InstallRaceHook(core.Pick(c.Rng, 0, 0.05, 0.2))
	b := new(bigbuff.Buffer)
	_ = b.SetCleanerConfig(bigbuff.CleanerConfig{Cleaner: bigbuff.DefaultCleaner, Cooldown: core.Pick(c.Rng, 0, 50*time.Microsecond, time.Millisecond)}) // first call completes before sharing
	producers, consumers, aux := 1+c.Rng.IntN(3), 1+c.Rng.IntN(3), 1+c.Rng.IntN(3)
	n := 50 + c.Rng.IntN(150)
	ctx, cancel := context.WithCancel(context.Background())
	var wg sync.WaitGroup
	for p := 0; p < producers; p++ {
		wg.Add(1)
		go func() {
			defer wg.Done()
			batch := make([]interface{}, 0, 8) // the producer's own scratch slice, reused after every Put
			for i := 0; i < n; i++ {
				pl := &Payload{}
				PayloadWrite(pl, i)
				if i%7 == 3 || i == 0 {
					// spread call with a slice the caller goes on using: once Put has returned the slice is the
					// caller's again (the buffer must hold its own copy)
					pl2 := &Payload{}
					PayloadWrite(pl2, i)
					batch = append(batch[:0], pl, pl2)
					_ = b.Put(ctx, batch...)
					batch[0], batch[1] = nil, nil
					batch = append(batch[:0], pl, pl, pl)[:0]
				} else if i%5 == 0 {
					pl2 := &Payload{}
					PayloadWrite(pl2, i)
					_ = b.Put(ctx, pl, pl2)
				} else {
					_ = b.Put(nil, pl)
				}
			}
		}()
	}
	var shared [3]atomic.Pointer[bigbuff.Consumer]
	for k := 0; k < consumers; k++ {
		k := k
		seed := c.Rng.Uint64()
		wg.Add(1)
		go func() {
			defer wg.Done()
			r := newRand(seed)
			cons, err := b.NewConsumer()
			if err != nil {
				return
			}
			shared[k].Store(&cons) // other goroutines ask for this consumer's Diff (a read-only call, safe from anywhere)
			sum := 0
			for i := 0; i < n; i++ {
				gctx, gcancel := context.WithTimeout(ctx, time.Duration(50+r.IntN(500))*time.Microsecond)
				v, err := cons.Get(gctx)
				gcancel()
				if err == nil {
					if pl, ok := v.(*Payload); ok {
						sum += PayloadRead(pl)
					}
				}
				switch r.IntN(6) {
				case 0:
					_ = cons.Commit()
				case 1:
					_ = cons.Rollback()
				case 2:
					_, _ = b.Diff(cons)
				case 3:
					select {
					case <-cons.Done():
					default:
					}
				}
			}
			_ = cons.Rollback()
			if r.IntN(2) == 0 {
				_ = b.Range(ctx, cons, func(int, interface{}) bool { return r.IntN(4) != 0 })
			}
			_ = cons.Rollback()
			_ = cons.Close()
			_ = sum
		}()
	}
	for a := 0; a < aux; a++ {
		seed := c.Rng.Uint64()
		wg.Add(1)
		go func() {
			defer wg.Done()
			r := newRand(seed)
			for i := 0; i < n/2; i++ {
				switch r.IntN(8) {
				case 6, 7:
					// Diff of somebody else's consumer, while its owner is in the middle of Get / Commit / Rollback
					if cp := shared[r.IntN(len(shared))].Load(); cp != nil {
						_, _ = b.Diff(*cp)
					}
				case 0:
					_ = b.SetCleanerConfig(bigbuff.CleanerConfig{Cleaner: bigbuff.FixedBufferCleaner(50+r.IntN(50), 10, nil), Cooldown: time.Duration(r.IntN(100)) * time.Microsecond})
				case 1:
					_ = b.CleanerConfig()
				case 2:
					for _, v := range b.Slice() {
						if pl, ok := v.(*Payload); ok {
							_ = PayloadRead(pl)
						}
					}
				case 3:
					_ = b.Size()
				case 4:
					select {
					case <-b.Done():
					default:
					}
				case 5:
					_ = b.SetCleanerConfig(bigbuff.CleanerConfig{Cleaner: bigbuff.DefaultCleaner, Cooldown: 0})
				}
				if r.IntN(4) == 0 {
					time.Sleep(time.Duration(r.IntN(50)) * time.Microsecond)
				}
			}
		}()
	}
	closeEarly := c.Rng.IntN(3) == 0
	if closeEarly {
		wg.Add(1)
		d := time.Duration(c.Rng.IntN(2000)) * time.Microsecond
		go func() { defer wg.Done(); time.Sleep(d); _ = b.Close() }()
	}
	wg.Wait()
	cancel()
	_ = b.Close()
	c11Finish(c, "buffer", (producers+consumers)*n+aux*n/2, producers, consumers, aux, closeEarly)
}

func c11Channel(c *core.Ctx) {
	core.InstallRaceHook(core.Pick(c.Rng, 0, 0.1))
	src := make(chan *Payload, core.Pick(c.Rng, 0, 1, 16))
	ctx, cancel := context.WithCancel(context.Background())
	defer cancel()
	ch, err := bigbuff.NewChannel(ctx, 50*time.Microsecond, src)
	if err != nil {
		c.Violate("newchannel-error", "%v", err)
		return
	}
	n := 100 + c.Rng.IntN(200)
	stop := make(chan struct{})
	var wg, fwg sync.WaitGroup
	fwg.Add(1)
	go func() {
		defer fwg.Done()
		for i := 0; i < n; i++ {
			pl := &Payload{}
			PayloadWrite(pl, i)
			select {
			case src <- pl:
			case <-stop:
				return
			}
		}
	}()
	getters := 1 + c.Rng.IntN(4)
	for g := 0; g < getters; g++ {
		seed := c.Rng.Uint64()
		wg.Add(1)
		go func() {
			defer wg.Done()
			r := newRand(seed)
			for i := 0; i < n/2; i++ {
				switch r.IntN(8) {
				case 0:
					_ = ch.Commit()
				case 1:
					_ = ch.Rollback()
				case 2:
					for _, v := range ch.Buffer() {
						if pl, ok := v.(*Payload); ok {
							_ = PayloadRead(pl)
						}
					}
				case 3:
					select {
					case <-ch.Done():
					default:
					}
				default:
					gctx, gcancel := context.WithTimeout(context.Background(), time.Duration(50+r.IntN(300))*time.Microsecond)
					if v, err := ch.Get(gctx); err == nil {
						if pl, ok := v.(*Payload); ok {
							_ = PayloadRead(pl)
						}
					}
					gcancel()
				}
			}
		}()
	}
	closeBy := core.Pick(c.Rng, "Close", "cancel", "end")
	if closeBy != "end" {
		wg.Add(1)
		d := time.Duration(c.Rng.IntN(3000)) * time.Microsecond
		go func() {
			defer wg.Done()
			time.Sleep(d)
			if closeBy == "Close" {
				_ = ch.Close()
			} else {
				cancel()
			}
		}()
	}
	wg.Wait()
	close(stop)
	fwg.Wait()
	cancel()
	_ = ch.Close()
	c11Finish(c, "channel", getters*n/2, getters, closeBy)
}

func c11PubSub(c *core.Ctx) {
	core.InstallRaceHook(core.Pick(c.Rng, 0, 0.05, 0.2))
	if c.Rng.IntN(3) == 0 {
		// ChanCaster alone
		x := bigbuff.NewChanCaster(make(chan *Payload))
		recvs, sends := 1+c.Rng.IntN(4), 20+c.Rng.IntN(60)
		stop := make(chan struct{})
		var wg, rwg sync.WaitGroup
		for i := 0; i < recvs; i++ {
			seed := c.Rng.Uint64()
			rwg.Add(1)
			go func() {
				defer rwg.Done()
				r := newRand(seed)
				for {
					select {
					case <-stop:
						return
					default:
					}
					x.Add(1)
					t := time.NewTimer(time.Duration(50+r.IntN(300)) * time.Microsecond)
					select {
					case pl := <-x.C:
						_ = PayloadRead(pl)
					case <-t.C:
						x.Add(-1)
					}
					t.Stop()
				}
			}()
		}
		for s := 0; s < 2; s++ {
			wg.Add(1)
			go func() {
				defer wg.Done()
				for i := 0; i < sends; i++ {
					pl := &Payload{}
					PayloadWrite(pl, i)
					_ = x.Send(pl)
					_ = x.Add(0)
				}
			}()
		}
		wg.Wait()
		close(stop)
		rwg.Wait()
		c11Finish(c, "chancaster", 2*sends, recvs)
		return
	}
	ps := bigbuff.NewChanPubSub(make(chan *Payload))
	senders, subs, per := 1+c.Rng.IntN(3), 1+c.Rng.IntN(6), 20+c.Rng.IntN(60)
	stop := make(chan struct{})
	var swg, rwg sync.WaitGroup
	for i := 0; i < subs; i++ {
		seed := c.Rng.Uint64()
		kind := c.Rng.IntN(4)
		rwg.Add(1)
		go func() {
			defer rwg.Done()
			r := newRand(seed)
			for round := 0; round < 3; round++ {
				k := 1 + r.IntN(10)
				switch kind {
				case 0, 1: // manual
					ps.Add(1)
					ch := ps.C()
					got := 0
				loop:
					for got < k {
						select {
						case pl := <-ch:
							ps.Wait()
							_ = PayloadRead(pl)
							got++
						case <-stop:
							break loop
						}
					}
					ps.Add(-1)
				case 2: // iterator, break or cancel
					ctx, cancel := context.WithCancel(context.Background())
					go func() {
						select {
						case <-stop:
							cancel()
						case <-ctx.Done():
						}
					}()
					got := 0
					for pl := range ps.SubscribeContext(ctx) {
						_ = PayloadRead(pl)
						got++
						if got >= k {
							if r.IntN(2) == 0 {
								break
							}
							cancel()
						}
					}
					cancel()
				default: // never iterated
					ctx, cancel := context.WithCancel(context.Background())
					_ = ps.SubscribeContext(ctx)
					time.Sleep(time.Duration(r.IntN(300)) * time.Microsecond)
					cancel()
				}
				select {
				case <-stop:
					return
				default:
				}
			}
		}()
	}
	for s := 0; s < senders; s++ {
		swg.Add(1)
		go func() {
			defer swg.Done()
			for i := 0; i < per; i++ {
				pl := &Payload{}
				PayloadWrite(pl, i)
				_ = ps.Send(pl)
			}
		}()
	}
	swg.Wait()
	close(stop)
	rwg.Wait()
	c11Finish(c, "chanpubsub", senders*per, senders, subs)
}

func c11Exec(c *core.Ctx) {
	core.InstallRaceHook(core.Pick(c.Rng, 0, 0.05, 0.2))
	switch c.Rng.IntN(3) {
	case 0:
		e := new(bigbuff.Exclusive)
		callers, per := 2+c.Rng.IntN(10), 5+c.Rng.IntN(20)
		var wg sync.WaitGroup
		for i := 0; i < callers; i++ {
			seed := c.Rng.Uint64()
			wg.Add(1)
			go func() {
				defer wg.Done()
				r := newRand(seed)
				for j := 0; j < per; j++ {
					key := r.IntN(3)
					fn := func() (interface{}, error) {
						pl := &Payload{}
						PayloadWrite(pl, j)
						return pl, nil
					}
					read := func(v interface{}) {
						if pl, ok := v.(*Payload); ok {
							_ = PayloadRead(pl)
						}
					}
					switch r.IntN(7) {
					case 6: // work that resolves from another goroutine as it returns
						if o := <-e.CallWithOptions(bigbuff.ExclusiveKey(key), bigbuff.ExclusiveWork(func(resolve func(interface{}, error)) {
							pl := &Payload{}
							PayloadWrite(pl, j)
							go resolve(pl, nil)
						})); o != nil {
							read(o.Result)
						}
					case 0:
						v, _ := e.Call(key, fn)
						read(v)
					case 1:
						v, _ := e.CallAfter(key, fn, time.Duration(r.IntN(200))*time.Microsecond)
						read(v)
					case 2:
						if o := <-e.CallAsync(key, fn); o != nil {
							read(o.Result)
						}
					case 3:
						e.Start(key, fn)
					case 4:
						e.StartAfter(key, fn, time.Duration(r.IntN(100))*time.Microsecond)
					default:
						tail := time.Duration(r.IntN(50)) * time.Microsecond // (the work may outlive this call: no shared rng inside it)
						if o := <-e.CallWithOptions(bigbuff.ExclusiveKey(key), bigbuff.ExclusiveWork(func(resolve func(interface{}, error)) {
							pl := &Payload{}
							PayloadWrite(pl, j)
							resolve(pl, nil)
							time.Sleep(tail)
						}), bigbuff.ExclusiveRateLimit(context.Background(), 20*time.Microsecond)); o != nil {
							read(o.Result)
						}
					}
				}
			}()
		}
		wg.Wait()
		time.Sleep(2 * time.Millisecond)
		c11Finish(c, "exclusive", callers*per, callers)
	case 1:
		w := new(bigbuff.Workers)
		callers, per := 2+c.Rng.IntN(10), 5+c.Rng.IntN(30)
		var wg sync.WaitGroup
		for i := 0; i < callers; i++ {
			seed := c.Rng.Uint64()
			wg.Add(1)
			go func() {
				defer wg.Done()
				r := newRand(seed)
				for j := 0; j < per; j++ {
					fn := func() (interface{}, error) {
						pl := &Payload{}
						PayloadWrite(pl, j)
						return pl, nil
					}
					var v interface{}
					switch r.IntN(4) {
					case 0:
						v, _ = w.Wrap(1+r.IntN(4), fn)()
					case 1:
						_ = w.Count()
						v, _ = w.Call(1+r.IntN(4), fn)
					case 2:
						w.Wait()
						v, _ = w.Call(1+r.IntN(4), fn)
					default:
						v, _ = w.Call(1+r.IntN(4), fn)
					}
					if pl, ok := v.(*Payload); ok {
						_ = PayloadRead(pl)
					}
				}
			}()
		}
		wg.Wait()
		w.Wait()
		c11Finish(c, "workers", callers*per, callers)
	default:
		var w bigbuff.Worker
		holders, per := 1+c.Rng.IntN(8), 5+c.Rng.IntN(20)
		var wg sync.WaitGroup
		for i := 0; i < holders; i++ {
			seed := c.Rng.Uint64()
			wg.Add(1)
			go func() {
				defer wg.Done()
				r := newRand(seed)
				for j := 0; j < per; j++ {
					done := w.Do(func(stop <-chan struct{}) { <-stop })
					if r.IntN(2) == 0 {
						time.Sleep(time.Duration(r.IntN(100)) * time.Microsecond)
					}
					done()
				}
			}()
		}
		wg.Wait()
		time.Sleep(time.Millisecond)
		c11Finish(c, "worker", holders*per, holders)
	}
}

func c11Notifier(c *core.Ctx) {
	core.InstallRaceHook(core.Pick(c.Rng, 0, 0.1))
	var n bigbuff.Notifier
	subs, pubs, per := 1+c.Rng.IntN(5), 1+c.Rng.IntN(3), 20+c.Rng.IntN(60)
	stop := make(chan struct{})
	var swg, pwg sync.WaitGroup
	for i := 0; i < subs; i++ {
		seed := c.Rng.Uint64()
		swg.Add(1)
		go func() {
			defer swg.Done()
			r := newRand(seed)
			for {
				select {
				case <-stop:
					return
				default:
				}
				key := core.Pick(r, "a", "b")
				ch := make(chan *Payload, r.IntN(2))
				ctx, cancel := context.WithCancel(context.Background())
				useCancel := r.IntN(2) == 0
				var unsub context.CancelFunc
				if useCancel {
					unsub = n.SubscribeCancel(ctx, key, ch)
				} else {
					n.SubscribeContext(ctx, key, ch)
				}
				k := 1 + r.IntN(5)
				t := time.NewTimer(time.Duration(200+r.IntN(800)) * time.Microsecond)
			loop:
				for got := 0; got < k; {
					select {
					case pl := <-ch:
						_ = PayloadRead(pl)
						got++
					case <-t.C:
						break loop
					case <-stop:
						break loop
					}
				}
				t.Stop()
				cancel() // always cancel before unsubscribing (documented)
				if useCancel {
					unsub()
				} else {
					n.Unsubscribe(key, ch)
				}
			}
		}()
	}
	for p := 0; p < pubs; p++ {
		seed := c.Rng.Uint64()
		pwg.Add(1)
		go func() {
			defer pwg.Done()
			r := newRand(seed)
			for i := 0; i < per; i++ {
				pl := &Payload{}
				PayloadWrite(pl, i)
				if r.IntN(2) == 0 {
					n.Publish(core.Pick(r, "a", "b"), pl)
				} else {
					ctx, cancel := context.WithTimeout(context.Background(), time.Duration(100+r.IntN(500))*time.Microsecond)
					n.PublishContext(ctx, core.Pick(r, "a", "b"), pl)
					cancel()
				}
			}
		}()
	}
	pwg.Wait()
	close(stop)
	swg.Wait()
	time.Sleep(time.Millisecond)
	c11Finish(c, "notifier", pubs*per, subs, pubs)
}

var errC11 = errors.New("c11 plain error")

func c11Misc(c *core.Ctx) {
	core.InstallRaceHook(core.Pick(c.Rng, 0, 0.1, 0.3))
	var wg sync.WaitGroup
	kind := c.Rng.IntN(4)
	ops := 0
	switch kind {
	case 0: // WaitCond: waiters, signallers, cancellers on one cond
		var mu sync.Mutex
		cond := sync.NewCond(&mu)
		state := 0
		waiters := 2 + c.Rng.IntN(6)
		for i := 0; i < waiters; i++ {
			seed := c.Rng.Uint64()
			wg.Add(1)
			go func() {
				defer wg.Done()
				r := newRand(seed)
				for j := 0; j < 10; j++ {
					ctx, cancel := context.WithTimeout(context.Background(), time.Duration(50+r.IntN(500))*time.Microsecond)
					mu.Lock()
					want := state + 1
					_ = bigbuff.WaitCond(ctx, cond, func() bool { return state >= want })
					mu.Unlock()
					cancel()
				}
			}()
		}
		wg.Add(1)
		go func() {
			defer wg.Done()
			for j := 0; j < 40; j++ {
				mu.Lock()
				state++
				cond.Broadcast()
				mu.Unlock()
				time.Sleep(50 * time.Microsecond)
			}
		}()
		ops = waiters * 10
	case 1: // context combinators: concurrent cancellation and observation
		for rep := 0; rep < 60; rep++ {
			a, ca := context.WithCancel(context.WithValue(context.Background(), ctxKey("k"), 1))
			b, cb := context.WithCancel(context.Background())
			d, cd := context.WithCancel(context.Background())
			if rep%2 == 1 {
				// an independent goroutine cancels one of the others at about the time the combinators register
				// their callbacks (nothing orders it against the registration)
				n := c.Rng.IntN(40)
				wg.Add(1)
				go func() { defer wg.Done(); spin(n); cb() }()
			}
			comb := bigbuff.CombineContext(a, b, nil, d)
			conf, cconf := bigbuff.ConflatedContext(a, b, d)
			calls := new(Payload)
			var cmu sync.Mutex
			bigbuff.ChainAfterFunc(a, b, func() { cmu.Lock(); calls.A++; cmu.Unlock() })
			for _, f := range []func(){ca, cb, cd, func() { cconf() }} {
				f := f
				wg.Add(1)
				go func() { defer wg.Done(); f() }()
			}
			for _, x := range []context.Context{comb, conf} {
				x := x
				wg.Add(1)
				go func() {
					defer wg.Done()
					_ = x.Err()
					_ = x.Value(ctxKey("k"))
					<-x.Done()
				}()
			}
			wg.Wait()
			ops += 6
		}
	case 2: // LinearAttempt: producer vs receivers and cancellation
		for rep := 0; rep < 6; rep++ {
			ctx, cancel := context.WithCancel(context.Background())
			ch := bigbuff.LinearAttempt(ctx, time.Duration(20+c.Rng.IntN(200))*time.Microsecond, 1+c.Rng.IntN(30))
			for g := 0; g < 2; g++ {
				wg.Add(1)
				go func() {
					defer wg.Done()
					for t := range ch {
						_ = t.IsZero()
					}
				}()
			}
			d := time.Duration(c.Rng.IntN(1500)) * time.Microsecond
			wg.Add(1)
			go func() { defer wg.Done(); time.Sleep(d); cancel() }()
			wg.Wait()
			ops += 3
		}
	default: // ExponentialRetry: one returned function invoked concurrently
		ctx, cancel := context.WithCancel(context.Background())
		retry := bigbuff.ExponentialRetry(ctx, time.Nanosecond, func() (interface{}, error) {
			pl := &Payload{}
			PayloadWrite(pl, 1)
			return pl, errC11
		})
		for g := 0; g < 4; g++ {
			wg.Add(1)
			go func() {
				defer wg.Done()
				for j := 0; j < 3; j++ {
					rctx, rcancel := context.WithTimeout(ctx, 300*time.Microsecond)
					r2 := bigbuff.ExponentialRetry(rctx, time.Nanosecond, func() (interface{}, error) { return nil, errC11 })
					_, _ = r2()
					rcancel()
				}
				_, _ = retry()
			}()
		}
		time.AfterFunc(2*time.Millisecond, cancel)
		wg.Wait()
		cancel()
		ops = 16
	}
	wg.Wait()
	time.Sleep(500 * time.Microsecond)
	c11Finish(c, []string{"waitcond", "contexts", "attempt", "retry"}[kind], ops)
}
