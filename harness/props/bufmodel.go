package props

import (
	"fmt"
	"sort"
	"strings"
	"time"

	"github.com/anishathalye/porcupine"
)

// Sequential model of bigbuff.Buffer (DESIGN.md appendix A.1), used through porcupine's NondeterministicModel:
// before every step the asynchronous cleaner may or may not have run.

type bopKind int

const (
	bPut bopKind = iota
	bNewConsumer
	bGet
	bCommit
	bRollback
	bCloseCons
	bSlice
	bSize
	bDiff
)

var bopNames = []string{"Put", "NewConsumer", "Get", "Commit", "Rollback", "CloseConsumer", "Slice", "Size", "Diff"}

func (k bopKind) String() string { return bopNames[k] }

// bIn is the input of an operation.
type bIn struct {
	Kind bopKind
	Cons int   // consumer id (Get/Commit/Rollback/Close/Diff; NewConsumer: the id it will be known by)
	Vals []int // Put
	// CancelledBeforeReturn: the driver had called this op's cancel func before the op returned (an error is legal).
	CancelledBeforeReturn bool
	// CloseCalledBeforeReturn: a Close of this consumer had been invoked before the op returned (a Get error is legal).
	CloseCalledBeforeReturn bool
}

// bOut is the output of an operation.
type bOut struct {
	Err     string // "" = success
	ErrPast bool   // Get: "offset ... past"
	Val     int    // Get
	Vals    []int  // Slice
	N       int    // Size / Diff
	OK      bool   // Diff
}

type bcons struct{ cid, committed, delta int }

type bstate struct {
	puts   []int // immutable (copy on append)
	base   int
	cons   []bcons // sorted by cid
	closed []int   // sorted
}

func (s *bstate) find(cid int) int {
	for i, c := range s.cons {
		if c.cid == cid {
			return i
		}
	}
	return -1
}

func (s *bstate) isClosed(cid int) bool {
	for _, c := range s.closed {
		if c == cid {
			return true
		}
	}
	return false
}

func (s *bstate) withCons(i int, c bcons) *bstate {
	n := *s
	n.cons = append([]bcons(nil), s.cons...)
	n.cons[i] = c
	return &n
}

func bstateEqual(a, b *bstate) bool {
	if a.base != b.base || len(a.puts) != len(b.puts) || len(a.cons) != len(b.cons) || len(a.closed) != len(b.closed) {
		return false
	}
	for i := range a.cons {
		if a.cons[i] != b.cons[i] {
			return false
		}
	}
	for i := range a.closed {
		if a.closed[i] != b.closed[i] {
			return false
		}
	}
	for i := range a.puts {
		if a.puts[i] != b.puts[i] {
			return false
		}
	}
	return true
}

// cleanerSpec is the reference cleaner configured for a scenario.
type cleanerSpec struct {
	Fixed       bool
	Max, Target int
}

func (cs cleanerSpec) String() string {
	if cs.Fixed {
		return fmt.Sprintf("Fixed(max=%d,target=%d)", cs.Max, cs.Target)
	}
	return "Default"
}

// refDefaultCleaner is the independent reference for DefaultCleaner: the smallest non-negative offset, clamped to
// size; 0 when there is no non-negative offset.
func refDefaultCleaner(size int, offsets []int) int {
	best, any := 0, false
	for _, o := range offsets {
		if o < 0 {
			continue
		}
		if !any || o < best {
			best, any = o, true
		}
	}
	if !any {
		return 0
	}
	if best > size {
		return size
	}
	return best
}

func (cs cleanerSpec) shift(size int, offsets []int) int {
	if cs.Fixed && size > cs.Max {
		return size - cs.Target
	}
	return refDefaultCleaner(size, offsets)
}

func (cs cleanerSpec) clean(s *bstate) *bstate {
	size := len(s.puts) - s.base
	offs := make([]int, len(s.cons))
	for i, c := range s.cons {
		offs[i] = c.committed - s.base
	}
	sh := cs.shift(size, offs)
	if sh > size {
		sh = size
	}
	if sh <= 0 {
		return s
	}
	n := *s
	n.base += sh
	return &n
}

func intsEqual(a, b []int) bool {
	if len(a) != len(b) {
		return false
	}
	for i := range a {
		if a[i] != b[i] {
			return false
		}
	}
	return true
}

// apply returns the successor (or nil when the output is illegal in s).
func bApply(s *bstate, in bIn, out bOut) *bstate {
	switch in.Kind {
	case bPut:
		if out.Err != "" {
			if in.CancelledBeforeReturn {
				return s
			}
			return nil
		}
		n := *s
		n.puts = append(append(make([]int, 0, len(s.puts)+len(in.Vals)), s.puts...), in.Vals...)
		return &n
	case bNewConsumer:
		if out.Err != "" {
			return nil
		}
		n := *s
		n.cons = append(append([]bcons(nil), s.cons...), bcons{in.Cons, s.base, 0})
		sort.Slice(n.cons, func(i, j int) bool { return n.cons[i].cid < n.cons[j].cid })
		return &n
	case bGet:
		i := s.find(in.Cons)
		if out.Err != "" {
			// an error is legal when the consumer's next value has been evicted (whatever the message says), when
			// the driver cancelled this Get, or when the consumer is (being) closed
			if i >= 0 && s.cons[i].committed+s.cons[i].delta < s.base {
				return s
			}
			if out.ErrPast {
				return nil // reported as fallen behind although its next value is still retained
			}
			if in.CancelledBeforeReturn || in.CloseCalledBeforeReturn || s.isClosed(in.Cons) {
				return s
			}
			return nil
		}
		if i < 0 {
			return nil
		}
		c := s.cons[i]
		pos := c.committed + c.delta
		if pos < s.base || pos >= len(s.puts) || s.puts[pos] != out.Val {
			return nil
		}
		c.delta++
		return s.withCons(i, c)
	case bCommit:
		i := s.find(in.Cons)
		if out.Err != "" {
			if i < 0 || s.cons[i].delta == 0 {
				return s
			}
			return nil
		}
		if i < 0 || s.cons[i].delta == 0 {
			return nil
		}
		c := s.cons[i]
		c.committed += c.delta
		c.delta = 0
		return s.withCons(i, c)
	case bRollback:
		i := s.find(in.Cons)
		if out.Err != "" {
			if i < 0 || s.cons[i].delta == 0 {
				return s
			}
			return nil
		}
		if i < 0 || s.cons[i].delta == 0 {
			return nil
		}
		c := s.cons[i]
		c.delta = 0
		return s.withCons(i, c)
	case bCloseCons:
		i := s.find(in.Cons)
		if out.Err != "" {
			// second close: legal only if already closed (or a concurrent close is in flight: the harness never does that)
			if s.isClosed(in.Cons) {
				return s
			}
			return nil
		}
		if i < 0 || s.cons[i].delta != 0 {
			return nil // blocks while reads are uncommitted
		}
		n := *s
		n.cons = append(append([]bcons(nil), s.cons[:i]...), s.cons[i+1:]...)
		n.closed = append(append([]int(nil), s.closed...), in.Cons)
		sort.Ints(n.closed)
		return &n
	case bSlice:
		if intsEqual(out.Vals, s.puts[s.base:]) {
			return s
		}
		return nil
	case bSize:
		if out.N == len(s.puts)-s.base {
			return s
		}
		return nil
	case bDiff:
		i := s.find(in.Cons)
		if !out.OK {
			if i < 0 && out.N == 0 {
				return s
			}
			return nil
		}
		if i >= 0 && out.N == len(s.puts)-s.cons[i].committed-s.cons[i].delta {
			return s
		}
		return nil
	}
	return nil
}

func bufferModel(cs cleanerSpec) porcupine.Model {
	nm := porcupine.NondeterministicModel{
		Init: func() []interface{} { return []interface{}{&bstate{}} },
		Step: func(st, in, out interface{}) []interface{} {
			s := st.(*bstate)
			var res []interface{}
			// the asynchronous cleaner may have made 0, 1, 2, ... passes before this step (up to its fixpoint)
			for {
				if n := bApply(s, in.(bIn), out.(bOut)); n != nil {
					res = append(res, n)
				}
				s2 := cs.clean(s)
				if s2 == s {
					return res
				}
				s = s2
			}
		},
		Equal: func(a, b interface{}) bool { return bstateEqual(a.(*bstate), b.(*bstate)) },
		DescribeOperation: func(in, out interface{}) string {
			return describeBOp(in.(bIn), out.(bOut))
		},
	}
	return nm.ToModel()
}

func describeBOp(i bIn, o bOut) string {
	var sb strings.Builder
	sb.WriteString(i.Kind.String())
	switch i.Kind {
	case bPut:
		fmt.Fprintf(&sb, "%v", i.Vals)
	case bSlice, bSize:
	default:
		fmt.Fprintf(&sb, "(c%d)", i.Cons)
	}
	if o.Err != "" {
		fmt.Fprintf(&sb, " -> err(%s)", truncate(o.Err, 50))
		if i.CancelledBeforeReturn {
			sb.WriteString("[cancelled]")
		}
		return sb.String()
	}
	switch i.Kind {
	case bGet:
		fmt.Fprintf(&sb, " -> %d", o.Val)
	case bSlice:
		fmt.Fprintf(&sb, " -> %v", o.Vals)
	case bSize:
		fmt.Fprintf(&sb, " -> %d", o.N)
	case bDiff:
		fmt.Fprintf(&sb, " -> (%d,%v)", o.N, o.OK)
	default:
		sb.WriteString(" -> ok")
	}
	return sb.String()
}

func truncate(s string, n int) string {
	if len(s) > n {
		return s[:n] + "…"
	}
	return s
}

// describeHistory renders a porcupine history compactly (sorted by call stamp).
func describeHistory(ops []porcupine.Operation, desc func(in, out interface{}) string, max int) []string {
	cp := append([]porcupine.Operation(nil), ops...)
	sort.Slice(cp, func(i, j int) bool { return cp[i].Call < cp[j].Call })
	var out []string
	for i, o := range cp {
		if i >= max {
			out = append(out, fmt.Sprintf("... (%d more)", len(cp)-max))
			break
		}
		ret := fmt.Sprint(o.Return)
		if o.Return >= openStamp {
			ret = "open"
		}
		out = append(out, fmt.Sprintf("[%d,%s] client%d %s", o.Call, ret, o.ClientId, desc(o.Input, o.Output)))
	}
	return out
}

const openStamp = int64(1) << 60

// checkLin runs porcupine with a timeout and maps the result.
func checkLin(model porcupine.Model, ops []porcupine.Operation, timeout time.Duration) porcupine.CheckResult {
	res, _ := porcupine.CheckOperationsVerbose(model, ops, timeout)
	return res
}
