package props

import (
	"context"
	"errors"
	"fmt"
	"sort"
	"strings"
	"sync"
	"sync/atomic"
	"time"

	bigbuff "github.com/joeycumines/go-bigbuff"

	"verif/core"
)

// C05 — Blocked Get / WaitCond always wakes; a failed Get consumes nothing.

const c05Bound = 5000

func init() {
	core.Register(&core.Property{
		ID: "C05",
		Rule: "directed: every non-empty subset of events {put, cancel, buffer-close} (Get) / {signal, cancel, spurious broadcast, nobody-broadcasts+deadline} (WaitCond) is fired at every placement relative to the waiter: before the call, after the synchronous miss (buffer.getasync.spawned held), " +
			"with the waiter held at waitcond.park (between its predicate and cond.Wait), after it parked; oracle: the call returns within 5000 heartbeats with the right result class, WaitCond returns nil only after its predicate returned true under the lock, a failed Get is followed by a successful Get of the same position. " +
			"get-during-first-use: on thousands of zero-value Buffers a NewConsumer+Get races other first calls (the lazy initialiser is double-checked); afterwards one Put: the parked Get returns it. get-batch-trim: FixedBufferCleaner(max,target), the buffer pre-filled and read to its end, a Get parked, then ONE batched Put whose forced trim happens before the getter looks again (the buffer may end up exactly as long as before: length says nothing about whether something arrived): the Get returns the first value of the batch if it survived the trim, an error if it was evicted, never stays parked. " +
			"stress: getters with random cancels racing producers under seeded delays at waitcond.*. non-trivial = the intended window was entered (gate reached before the event fired) or operations overlapped; distinct = distinct (waiter, placement, event order, outcome) signatures",
		Assumptions: []string{
			"'promptly' is restated as 'within 5000 heartbeats' (a lost wake-up never recovers, so the bound is not critical)",
			"the gate at waitcond.park holds the waiter with its lock held, exactly as a descheduled goroutine would be; gates fall through after a bound",
		},
		Families: []core.Family{
			{Name: "get-directed", N: core.TierN(560, 22400), Batch: 28, Run: c05GetDirected},
			{Name: "waitcond-directed", N: core.TierN(400, 16000), Batch: 40, Run: c05WaitCondDirected},
			{Name: "get-stress", N: core.TierN(80, 3200), Batch: 5, Run: c05Stress},
			{Name: "get-batch-trim", N: core.TierN(240, 9600), Batch: 40, Run: c05BatchTrim},
			{Name: "get-during-first-use", N: core.TierN(12, 480), Batch: 3, Run: c05FirstUseGet},
		},
	})
}

var c05Placements = []string{"before", "spawned", "park", "parked"}
var c05EventSets = [][]string{{"put"}, {"cancel"}, {"close"}, {"put", "cancel"}, {"cancel", "put"}, {"put", "close"}, {"close", "cancel"}}

func c05GetDirected(c *core.Ctx) {
	placement := c05Placements[c.Index%4]
	events := c05EventSets[(c.Index/4)%len(c05EventSets)]
	cooldown := core.Pick(c.Rng, 0, time.Millisecond, 10*time.Millisecond)
	b := newBuffer(cleanerSpec{}, cooldown, nil)
	closed := false
	cons, err := b.NewConsumer()
	if err != nil {
		c.Violate("newconsumer-error", "%v", err)
		return
	}
	other, _ := b.NewConsumer() // a second consumer, so the cleaner has something to do
	p := c.NewPerturb(core.PerturbOpts{P: core.Pick(c.Rng, 0, 0.1)})
	defer p.Stop()
	defer func() {
		cons.Rollback()
		other.Rollback()
		if !closed {
			b.Close()
		}
	}()
	// position the consumer: k values put, read (and mostly committed)
	k := c.Rng.IntN(4)
	for i := 0; i < k; i++ {
		b.Put(context.Background(), i)
	}
	for i := 0; i < k; i++ {
		cons.Get(context.Background())
	}
	if k > 0 {
		cons.Commit() // Close (buffer) waits for uncommitted reads: keep the proviso
	}
	// the value the blocked Get would return: usually its position, in a quarter of the scenarios nil (a legal value)
	var expected interface{} = k
	if c.Rng.IntN(4) == 0 {
		expected = nil
	}

	gate := core.NewGate()
	var armed atomic.Bool
	armed.Store(true)
	switch placement {
	case "spawned":
		p.On("buffer.getasync.spawned", func(int64) {
			if armed.Load() {
				gate.Enter(3000)
			}
		})
	case "park":
		p.On("waitcond.park", func(int64) {
			if armed.Load() && core.CallerHas("getAsync") {
				gate.Enter(3000)
			}
		})
	}
	ctx, cancel := c05Context(c.Rng.IntN(3))
	defer cancel()
	var asyncWG sync.WaitGroup
	fire := func(blocking bool) {
		for _, e := range events {
			switch e {
			case "put":
				f := func() { b.Put(context.Background(), expected) }
				if blocking {
					asyncWG.Add(1)
					go func() { defer asyncWG.Done(); f() }()
				} else {
					f()
				}
			case "cancel":
				cancel()
			case "close":
				closed = true
				asyncWG.Add(1)
				go func() { defer asyncWG.Done(); b.Close() }()
			}
			if blocking {
				time.Sleep(200 * time.Microsecond) // let it queue on the lock, in order
			}
		}
	}
	type res struct {
		v   interface{}
		err error
	}
	out := make(chan res, 1)
	// in a third of the scenarios another goroutine keeps asking for the consumer's Diff while the Get is blocked
	// (a read-only call on the same consumer must never stand between the waiter and its wake-up)
	differ := c.Rng.IntN(3) == 0
	stopDiff := make(chan struct{})
	defer close(stopDiff)
	start := func() {
		go func() {
			v, err := cons.Get(ctx)
			out <- res{v, err}
		}()
		if differ {
			go func() {
				for {
					select {
					case <-stopDiff:
						return
					default:
					}
					b.Diff(cons)
					time.Sleep(30 * time.Microsecond)
				}
			}()
		}
	}
	window := false
	switch placement {
	case "before":
		fire(false)
		if closed {
			asyncWG.Wait() // Close returned before the Get is made
		}
		start()
		window = true
	case "spawned":
		start()
		if window = gate.WaitArrived(3000); window {
			fire(false)
			if closed {
				time.Sleep(300 * time.Microsecond)
			}
		} else {
			fire(false)
		}
		gate.Release()
	case "park":
		start()
		if window = gate.WaitArrived(3000); window {
			fire(true) // everything that needs the buffer lock queues behind the held waiter
			time.Sleep(300 * time.Microsecond)
		} else {
			fire(false)
		}
		gate.Release()
	case "parked":
		start()
		window = core.WaitUntil(3000, func() bool { return p.Hits("consumer.get.async") >= 1 && p.Hits("waitcond.park") >= 1 })
		time.Sleep(time.Duration(100+c.Rng.IntN(400)) * time.Microsecond)
		fire(false)
	}
	armed.Store(false)
	desc := fmt.Sprintf("placement=%s events=%v position=%d value=%v cooldown=%s window=%v", placement, events, k, expected, cooldown, window)
	r, _, got := core.AwaitChan(out, c05Bound)
	if !got {
		dump := core.DumpAll()
		c.Violate("get-lost-wakeup", "Get still blocked %d heartbeats after %v; %s", c05Bound, events, desc)
		c.SetDump(dump)
		// unblock so the process can go on (bounded: the library may be deadlocked)
		cancel()
		go b.Put(context.Background(), -1)
		core.AwaitChan(out, 2000)
		return
	}
	has := func(e string) bool {
		for _, x := range events {
			if x == e {
				return true
			}
		}
		return false
	}
	if r.err == nil {
		if !has("put") {
			c.Violate("get-invented", "Get returned %v although nothing was put; %s", r.v, desc)
		} else if r.v != expected {
			c.Violate("get-wrong-value", "Get returned %v, want %v; %s", r.v, expected, desc)
		}
	} else {
		if len(events) == 1 && has("put") {
			c.Violate("get-error", "Get failed with %v although only a Put happened; %s", r.err, desc)
		}
		if len(events) == 1 && has("cancel") && !errors.Is(r.err, context.Canceled) {
			c.Violate("get-cancel-error", "Get returned %v, want the context's error; %s", r.err, desc)
		}
	}
	outcome := "value"
	if r.err != nil {
		outcome = "error"
	} else {
		_ = cons.Commit() // Buffer.Close waits for uncommitted reads: keep the statement's proviso
	}
	asyncDone := core.Go(asyncWG.Wait)
	if !core.AwaitDone(asyncDone, c05Bound) {
		c.Violate("event-call-blocked", "a Put/Close fired during the scenario did not return; %s", desc)
		c.SetDump(core.DumpAll())
		return
	}
	// a failed Get consumed nothing: the same position is returned by the next successful Get
	if r.err != nil && !closed {
		if !has("put") {
			b.Put(context.Background(), expected)
		}
		ctx2, cancel2 := context.WithCancel(context.Background())
		out2 := make(chan res, 1)
		go func() {
			v, err := cons.Get(ctx2)
			out2 <- res{v, err}
		}()
		r2, _, got2 := core.AwaitChan(out2, c05Bound)
		cancel2()
		if !got2 {
			c.Violate("get-lost-wakeup", "follow-up Get blocked although value %v is in the buffer; %s", expected, desc)
			c.SetDump(core.DumpAll())
		} else if r2.err != nil || r2.v != expected {
			c.Violate("failed-get-consumed", "after a failed Get the next Get returned (%v, %v), want %v; %s", r2.v, r2.err, expected, desc)
		}
	}
	if window {
		c.Nontrivial()
		c.R.WinHit++
	} else {
		c.R.WinMissed++
		c.Inconclusive("window %s not entered", placement)
	}
	c.Op("get", 1)
	c.Op("event", len(events))
	c.Sig("get", placement, events, outcome, window, differ)
	if c.Index < 3 {
		c.SetHistory(desc + " outcome=" + outcome)
	}
}

// ---------------------------------------------------------------------------

var c05WCPlacements = []string{"before", "park", "parked"}
var c05WCEvents = [][]string{{"signal"}, {"cancel"}, {"spurious", "signal"}, {"spurious", "cancel"}, {"signal", "cancel"}, {"cancel", "signal"}, {"deadline"}, {"unlocked-broadcast", "signal"}}

type c05Waiter struct {
	mu       sync.Mutex
	cond     *sync.Cond
	ready    bool
	calls    int
	lastTrue bool
	unlocked bool
}

// c05WaitCondWaiter is the goroutine body (its name identifies the waiter's stack at the hook).
func c05WaitCondWaiter(w *c05Waiter, ctx context.Context) (err error, lockedOnReturn bool) {
	w.mu.Lock()
	err = bigbuff.WaitCond(ctx, w.cond, func() bool {
		if w.mu.TryLock() {
			w.unlocked = true
			w.mu.Unlock()
		}
		w.calls++
		w.lastTrue = w.ready
		return w.ready
	})
	lockedOnReturn = !w.mu.TryLock()
	if !lockedOnReturn {
		w.mu.Unlock()
		return
	}
	w.mu.Unlock()
	return
}

func c05WaitCondDirected(c *core.Ctx) {
	placement := c05WCPlacements[c.Index%3]
	events := c05WCEvents[(c.Index/3)%len(c05WCEvents)]
	w := &c05Waiter{}
	w.cond = sync.NewCond(&w.mu)
	p := c.NewPerturb(core.PerturbOpts{P: core.Pick(c.Rng, 0, 0.1)})
	defer p.Stop()
	gate := core.NewGate()
	var armed atomic.Bool
	armed.Store(placement == "park")
	p.On("waitcond.park", func(int64) {
		if armed.Load() && core.CallerHas("c05WaitCondWaiter") {
			gate.Enter(3000)
		}
	})
	ctx, cancel := c05Context(c.Rng.IntN(3))
	defer cancel()
	if len(events) == 1 && events[0] == "deadline" {
		var dcancel context.CancelFunc
		ctx, dcancel = context.WithTimeout(ctx, time.Duration(1+c.Rng.IntN(5))*time.Millisecond)
		defer dcancel()
	}
	var asyncWG sync.WaitGroup
	fire := func(blocking bool) {
		for _, e := range events {
			switch e {
			case "signal":
				f := func() { w.mu.Lock(); w.ready = true; w.cond.Broadcast(); w.mu.Unlock() }
				if blocking {
					asyncWG.Add(1)
					go func() { defer asyncWG.Done(); f() }()
				} else {
					f()
				}
			case "spurious":
				f := func() { w.mu.Lock(); w.cond.Broadcast(); w.mu.Unlock() }
				if blocking {
					asyncWG.Add(1)
					go func() { defer asyncWG.Done(); f() }()
				} else {
					f()
				}
			case "unlocked-broadcast":
				w.cond.Broadcast() // allowed by sync.Cond; must be harmless
			case "cancel":
				cancel()
			case "deadline":
			}
			if blocking {
				time.Sleep(200 * time.Microsecond)
			}
		}
	}
	type res struct {
		err    error
		locked bool
	}
	out := make(chan res, 1)
	start := func() {
		go func() {
			err, locked := c05WaitCondWaiter(w, ctx)
			out <- res{err, locked}
		}()
	}
	window := true
	switch placement {
	case "before":
		fire(false)
		start()
	case "park":
		start()
		if window = gate.WaitArrived(3000); window {
			fire(true)
			time.Sleep(300 * time.Microsecond)
		} else {
			fire(false)
		}
		gate.Release()
	case "parked":
		start()
		window = core.WaitUntil(3000, func() bool { return p.Hits("waitcond.park") >= 1 })
		time.Sleep(time.Duration(100+c.Rng.IntN(300)) * time.Microsecond)
		fire(false)
	}
	armed.Store(false)
	desc := fmt.Sprintf("placement=%s events=%v window=%v", placement, events, window)
	r, _, got := core.AwaitChan(out, c05Bound)
	if !got {
		c.Violate("waitcond-lost-wakeup", "WaitCond still blocked %d heartbeats after %v; %s", c05Bound, events, desc)
		c.SetDump(core.DumpAll())
		cancel()
		w.mu.Lock()
		w.ready = true
		w.cond.Broadcast()
		w.mu.Unlock()
		core.AwaitChan(out, 2000)
		return
	}
	core.AwaitDone(core.Go(asyncWG.Wait), c05Bound)
	has := func(e string) bool {
		for _, x := range events {
			if x == e {
				return true
			}
		}
		return false
	}
	w.mu.Lock()
	calls, lastTrue, unlocked := w.calls, w.lastTrue, w.unlocked
	w.mu.Unlock()
	if unlocked {
		c.Violate("predicate-unlocked", "the predicate was evaluated without the lock held; %s", desc)
	}
	if !r.locked {
		c.Violate("returned-unlocked", "WaitCond returned without holding the lock; %s", desc)
	}
	if r.err == nil {
		if !lastTrue {
			c.Violate("nil-without-true-predicate", "WaitCond returned nil but the predicate's last result was false (%d calls); %s", calls, desc)
		}
		if !has("signal") {
			c.Violate("nil-without-signal", "WaitCond returned nil although the condition was never made true; %s", desc)
		}
	} else {
		if !has("cancel") && !has("deadline") {
			c.Violate("waitcond-error", "WaitCond returned %v although its context is live; %s", r.err, desc)
		} else if ctx.Err() == nil || !errors.Is(r.err, ctx.Err()) {
			c.Violate("waitcond-wrong-error", "WaitCond returned %v, the context's error is %v; %s", r.err, ctx.Err(), desc)
		}
	}
	outcome := "nil"
	if r.err != nil {
		outcome = "ctx-error"
	}
	if window {
		c.Nontrivial()
		c.R.WinHit++
	} else {
		c.R.WinMissed++
		c.Inconclusive("window %s not entered", placement)
	}
	c.Op("waitcond", 1)
	c.Op("event", len(events))
	c.Sig("wc", placement, events, outcome, window)
	if c.Index < 2 {
		c.SetHistory(desc + " outcome=" + outcome)
	}
}

// ---------------------------------------------------------------------------

// c05Stress: getters with random per-Get cancellations racing producers; every Get must return (bounded) and the
// consumer's stream must stay gap-free although many Gets fail.
func c05Stress(c *core.Ctx) {
	cooldown := core.Pick(c.Rng, 0, 50*time.Microsecond, time.Millisecond)
	b := newBuffer(cleanerSpec{}, cooldown, nil)
	defer b.Close()
	p := c.NewPerturb(core.PerturbOpts{P: core.Pick(c.Rng, 0.02, 0.1), Hot: map[string]float64{
		core.Pick(c.Rng, "waitcond.park", "waitcond.cancelled", "buffer.getasync.spawned", "consumer.get.async"): core.Pick(c.Rng, 0.5, 1.0)},
		HotSleep: core.Pick(c.Rng, 50*time.Microsecond, 300*time.Microsecond)})
	defer p.Stop()
	nCons := 1 + c.Rng.IntN(4)
	total := 100 + c.Rng.IntN(300)
	var wg sync.WaitGroup
	var failed, succeeded, blockedViol atomic.Int64
	var mu sync.Mutex
	var problems []string
	for ci := 0; ci < nCons; ci++ {
		cons, _ := b.NewConsumer()
		wg.Add(1)
		seed := c.Rng.Uint64()
		go func(ci int) {
			defer wg.Done()
			defer func() { cons.Rollback(); cons.Close() }()
			r := newRand(seed)
			next := 0
			for next < total {
				ctx, cancel := context.WithCancel(context.Background())
				var t *time.Timer
				if r.IntN(2) == 0 {
					t = time.AfterFunc(time.Duration(r.IntN(300))*time.Microsecond, cancel)
				}
				type res struct {
					v   interface{}
					err error
				}
				out := make(chan res, 1)
				go func() { v, err := cons.Get(ctx); out <- res{v, err} }()
				rr, _, got := core.AwaitChan(out, 20000)
				if t != nil {
					t.Stop()
				}
				cancel()
				if !got {
					blockedViol.Add(1)
					mu.Lock()
					problems = append(problems, fmt.Sprintf("consumer %d: Get at position %d never returned", ci, next))
					mu.Unlock()
					return
				}
				if rr.err != nil {
					failed.Add(1)
					continue
				}
				succeeded.Add(1)
				if rr.v != next {
					mu.Lock()
					problems = append(problems, fmt.Sprintf("consumer %d: Get returned %v at position %d (after %d failed Gets)", ci, rr.v, next, failed.Load()))
					mu.Unlock()
					return
				}
				next++
				if r.IntN(8) == 0 {
					cons.Commit()
				}
			}
			cons.Commit()
		}(ci)
	}
	seed := c.Rng.Uint64()
	wg.Add(1)
	go func() {
		defer wg.Done()
		r := newRand(seed)
		for i := 0; i < total; i++ {
			b.Put(context.Background(), i)
			if r.IntN(4) == 0 {
				time.Sleep(time.Duration(r.IntN(200)) * time.Microsecond)
			}
		}
	}()
	if !core.AwaitDone(core.Go(wg.Wait), 60000) {
		c.Violate("get-lost-wakeup", "stress run did not finish")
		c.SetDump(core.DumpAll())
		return
	}
	sort.Strings(problems)
	for _, pr := range problems {
		key := "failed-get-consumed"
		if strings.Contains(pr, "never returned") {
			key = "get-lost-wakeup"
		}
		c.Violate(key, "%s", pr)
	}
	c.Op("get_ok", int(succeeded.Load()))
	c.Op("get_failed", int(failed.Load()))
	if failed.Load() > 0 {
		c.Nontrivial()
	}
	c.Sig(nCons, total, failed.Load() > 0)
}

// c05BatchTrim: a parked Get, then a single batched Put that also triggers a forced trim. Depending on the sizes the
// buffer is afterwards shorter, longer or exactly as long as when the getter last looked; whichever it is, the value
// at the getter's position has arrived (or has been evicted) and the Get must return.
func c05BatchTrim(c *core.Ctx) {
	max := 1 + c.Rng.IntN(6)
	target := 1 + c.Rng.IntN(max)
	pre := c.Rng.IntN(max + 1) // values already in the buffer (no trim yet: pre <= max)
	if c.Rng.IntN(2) == 0 {
		pre = target // the length a trimmed buffer hovers at
	}
	batch := 1 + c.Rng.IntN(max+3)
	commit := c.Rng.IntN(2) == 0
	cooldown := core.Pick(c.Rng, 0, 0, time.Millisecond)
	b := newBuffer(cleanerSpec{Fixed: true, Max: max, Target: target}, cooldown, nil)
	cons, err := b.NewConsumer()
	if err != nil {
		c.Violate("newconsumer-error", "%v", err)
		return
	}
	p := c.NewPerturb(core.PerturbOpts{P: core.Pick(c.Rng, 0, 0.1)})
	defer p.Stop()
	desc := fmt.Sprintf("Fixed(max=%d,target=%d) pre=%d batch=%d committed=%v cooldown=%s", max, target, pre, batch, commit, cooldown)
	for i := 0; i < pre; i++ {
		b.Put(context.Background(), i)
	}
	for i := 0; i < pre; i++ {
		if _, err := cons.Get(context.Background()); err != nil {
			c.Violate("get-error", "pre-read %d failed: %v; %s", i, err, desc)
			return
		}
	}
	if commit && pre > 0 {
		cons.Commit()
	}
	type res struct {
		v   interface{}
		err error
	}
	ctx, cancel := context.WithCancel(context.Background())
	defer cancel()
	out := make(chan res, 1)
	go func() {
		v, err := cons.Get(ctx)
		out <- res{v, err}
	}()
	parked := core.WaitUntil(3000, func() bool { return p.Hits("consumer.get.async") >= 1 && p.Hits("waitcond.park") >= 1 })
	time.Sleep(time.Duration(50+c.Rng.IntN(300))*time.Microsecond + cooldown)
	vals := make([]interface{}, batch)
	for i := range vals {
		vals[i] = pre + i
	}
	b.Put(context.Background(), vals...)
	r, _, got := core.AwaitChan(out, c05Bound)
	survives := pre+batch <= max || batch <= target // no trim at all, or the trim leaves the getter's position in
	if !got {
		c.Violate("get-lost-wakeup", "Get still parked %d heartbeats after a batched Put made its value available (buffer size now %d); %s", c05Bound, b.Size(), desc)
		c.SetDump(core.DumpAll())
		cancel()
		core.AwaitChan(out, 2000)
	} else if survives {
		if r.err != nil || r.v != pre {
			c.Violate("get-wrong-value", "Get returned (%v, %v), want %d; %s", r.v, r.err, pre, desc)
		}
	} else if r.err == nil && r.v != pre {
		// its position was evicted: an error (or, if the getter looked before the trim, the right value), never another value
		c.Violate("get-wrong-value", "Get returned %v after its position was evicted, want an error (or %d); %s", r.v, pre, desc)
	}
	cons.Rollback()
	cons.Close()
	b.Close()
	c.Op("get", 1)
	c.Op("put", 1)
	if parked {
		c.Nontrivial()
	}
	c.Sig("batch-trim", max, target, pre, batch, commit, got, r.err != nil)
}

var errC05Cause = errors.New("c05 custom cancellation cause")

// c05Context: a plain cancellable context, or (kind 1) one cancelled with a custom cause, or (kind 2) the child of one.
// Whatever the kind, the error a cancelled wait has to report is ctx.Err() (context.Canceled), not the cause.
func c05Context(kind int) (context.Context, context.CancelFunc) {
	switch kind {
	case 1:
		ctx, cc := context.WithCancelCause(context.Background())
		return ctx, func() { cc(errC05Cause) }
	case 2:
		parent, cc := context.WithCancelCause(context.Background())
		ctx, cancel := context.WithCancel(parent)
		return ctx, func() { cc(errC05Cause); cancel() }
	}
	return context.WithCancel(context.Background())
}

// c05FirstUseGet: a Get parks on a zero-value Buffer whose lazy initialisation is being raced by other first calls;
// whatever the initialiser set up in the end, the Put that follows wakes that Get.
func c05FirstUseGet(c *core.Ctx) {
	n := 500
	if c.Thorough() {
		n = 1200
	}
	for i := 0; i < n && !c.Violated(); i++ {
		b := new(bigbuff.Buffer)
		type res struct {
			v   interface{}
			err error
		}
		out := make(chan res, 1)
		ctx, cancel := context.WithCancel(context.Background())
		start := make(chan struct{})
		firstDone := make(chan struct{}, 8)
		k := 2 + c.Rng.IntN(6)
		for g := 0; g < k; g++ {
			go func() { <-start; b.Size(); firstDone <- struct{}{} }()
		}
		go func() {
			<-start
			cons, err := b.NewConsumer()
			firstDone <- struct{}{}
			if err != nil {
				out <- res{nil, err}
				return
			}
			v, err := cons.Get(ctx)
			if err == nil {
				cons.Commit()
			}
			out <- res{v, err}
		}()
		close(start)
		for g := 0; g <= k; g++ {
			<-firstDone
		}
		time.Sleep(time.Duration(c.Rng.IntN(100)) * time.Microsecond)
		b.Put(context.Background(), i)
		r, _, got := core.AwaitChan(out, c05Bound)
		if !got {
			c.Violate("get-lost-wakeup", "buffer #%d: a Get made while %d other first calls raced the lazy initialiser is still parked %d heartbeats after the Put (buffer size %d)", i, k, c05Bound, b.Size())
			c.SetDump(core.DumpAll())
			cancel()
			return
		}
		cancel()
		if r.err != nil || r.v != i {
			c.Violate("get-wrong-value", "buffer #%d: Get returned (%v, %v), want %d", i, r.v, r.err, i)
		}
		b.Close()
	}
	c.Op("first_use_race", n)
	c.Nontrivial()
	c.Sig("first-use-get", c.Index)
}
