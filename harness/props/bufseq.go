package props

import (
	"context"
	"fmt"
	"math/rand/v2"
	"time"

	bigbuff "github.com/joeycumines/go-bigbuff"

	"verif/core"
)

// Sequential differential runs: one goroutine issues operations one at a time against a real Buffer with cooldown 0
// and compares every result with the eager-cleaner sequential model (the cleaner is applied to its fixpoint after
// every state change; the harness waits, bounded, for the real asynchronous cleaner to get there before the next op).

type seqOp struct {
	Kind bopKind
	Cons int
	N    int // Put: number of values
}

func (o seqOp) String() string {
	switch o.Kind {
	case bPut:
		return fmt.Sprintf("Put(%d)", o.N)
	case bNewConsumer, bSlice, bSize:
		return o.Kind.String()
	}
	return fmt.Sprintf("%s(c%d)", o.Kind, o.Cons)
}

type seqResult struct {
	trace    []string
	mismatch string // "" ok
	key      string
	lagInfo  string
	lagging  bool // offset stayed below the expected one (reclamation did not happen within the bound)
	steps    int
	evicted  int
	pastErrs int
}

// runBufSeq executes ops sequentially. Ops that are not applicable in the current model state (unknown consumer,
// Close with pending reads) are skipped.
func runBufSeq(cs cleanerSpec, ops []seqOp, settleBeats int) *seqResult {
	res := &seqResult{}
	b := newBuffer(cs, 0, nil)
	st := &bstate{}
	var conss []bigbuff.Consumer
	defer func() {
		// Buffer.Close waits for its consumers, which wait for uncommitted reads: roll everything back first
		for _, cons := range conss {
			_ = cons.Rollback()
		}
		_ = b.Close()
	}()
	next := 0
	fail := func(key, format string, args ...any) *seqResult {
		res.key = key
		res.mismatch = fmt.Sprintf(format, args...)
		return res
	}
	// chain returns the states reachable by 0, 1, 2, ... cleaner passes (up to the fixpoint).
	chain := func(from *bstate) []*bstate {
		out := []*bstate{from}
		for {
			n := cs.clean(out[len(out)-1])
			if n == out[len(out)-1] {
				return out
			}
			out = append(out, n)
		}
	}
	// settle: after an operation that broadcasts, the cleaner must make at least one pass (bounded wait); the
	// observed offset must then be one of the offsets reachable by cleaner passes (never more than the fixpoint).
	settle := func(broadcasts bool) string {
		ch := chain(st)
		want := ch[0].base
		if broadcasts && len(ch) > 1 {
			want = ch[1].base
		}
		var off, sz int
		ok := core.WaitUntil(settleBeats, func() bool {
			off, sz, _ = b.VerifSnapshot()
			return off >= want
		})
		if !ok {
			res.lagging = true
			res.lagInfo = fmt.Sprintf("offset=%d size=%d, model base=%d puts=%d cons=%v; trace=%v", off, sz, st.base, len(st.puts), st.cons, res.trace)
			return "lag"
		}
		for _, cand := range ch {
			if cand.base == off {
				st = cand
				if sz != len(st.puts)-st.base {
					return fmt.Sprintf("buffer holds %d values, model says %d", sz, len(st.puts)-st.base)
				}
				return ""
			}
		}
		return fmt.Sprintf("buffer offset is %d, which no sequence of cleaner passes reaches from the model state (base=%d, fixpoint base=%d, size %d)", off, st.base, ch[len(ch)-1].base, sz)
	}
	for _, op := range ops {
		in := bIn{Kind: op.Kind, Cons: op.Cons}
		out := bOut{}
		needCons := op.Kind == bGet || op.Kind == bCommit || op.Kind == bRollback || op.Kind == bCloseCons || op.Kind == bDiff
		if needCons && op.Cons >= len(conss) {
			continue
		}
		ci := -1
		if needCons {
			ci = st.find(op.Cons)
		}
		switch op.Kind {
		case bPut:
			args := make([]interface{}, op.N)
			for i := range args {
				next++
				in.Vals = append(in.Vals, next)
				args[i] = next
			}
			if err := b.Put(context.Background(), args...); err != nil {
				out.Err = err.Error()
			}
			poisonArgs(args)
		case bNewConsumer:
			cons, err := b.NewConsumer()
			if err != nil {
				out.Err = err.Error()
			} else {
				conss = append(conss, cons)
				in.Cons = len(conss) - 1
			}
		case bGet:
			ctx := context.Background()
			var cancel context.CancelFunc
			blocks := ci >= 0 && st.cons[ci].committed+st.cons[ci].delta >= len(st.puts)
			if blocks {
				ctx, cancel = context.WithTimeout(ctx, 300*time.Microsecond)
				in.CancelledBeforeReturn = true
			}
			v, err := conss[op.Cons].Get(ctx)
			if cancel != nil {
				cancel()
			}
			out.Err, out.ErrPast = errClass(err)
			if out.ErrPast {
				res.pastErrs++
			}
			if err == nil {
				n, ok := v.(int)
				if !ok {
					n = -1
				}
				out.Val = n
				if blocks {
					return fail("get-invented", "%v returned %v although the model says nothing is available", op, v)
				}
			}
		case bCommit:
			if err := conss[op.Cons].Commit(); err != nil {
				out.Err = err.Error()
			}
		case bRollback:
			if err := conss[op.Cons].Rollback(); err != nil {
				out.Err = err.Error()
			}
		case bCloseCons:
			if ci < 0 || st.cons[ci].delta != 0 {
				continue // would block / second close: not part of this family
			}
			if err := conss[op.Cons].Close(); err != nil {
				out.Err = err.Error()
			}
		case bSlice:
			vs, ok := toInts(b.Slice())
			if !ok {
				vs = []int{-1}
			}
			out.Vals = vs
		case bSize:
			out.N = b.Size()
		case bDiff:
			out.N, out.OK = b.Diff(conss[op.Cons])
		}
		res.steps++
		res.trace = append(res.trace, describeBOp(in, out))
		// the cleaner may have made further passes before this operation took effect (stray broadcasts)
		var n *bstate
		for _, cand := range chain(st) {
			if n = bApply(cand, in, out); n != nil {
				break
			}
		}
		if n == nil {
			return fail("seq-model-mismatch", "step %d: %s is not what the sequential model allows (model: base=%d puts=%d consumers=%v)", res.steps, describeBOp(in, out), st.base, len(st.puts), st.cons)
		}
		st = n
		broadcasts := out.Err == "" && (op.Kind == bPut || op.Kind == bNewConsumer || op.Kind == bCommit || op.Kind == bCloseCons)
		if msg := settle(broadcasts); msg != "" {
			if msg == "lag" {
				return res
			}
			return fail("seq-retention-mismatch", "after step %d (%s): %s", res.steps, describeBOp(in, out), msg)
		}
	}
	res.evicted = st.base
	return res
}

func genSeqOps(r *rand.Rand, n int, weights [9]int) []seqOp {
	total := 0
	for _, w := range weights {
		total += w
	}
	ops := []seqOp{}
	ncons := 0
	for i := 0; i < n; i++ {
		x := r.IntN(total)
		kind := bopKind(0)
		for k, w := range weights {
			if x < w {
				kind = bopKind(k)
				break
			}
			x -= w
		}
		op := seqOp{Kind: kind}
		switch kind {
		case bPut:
			op.N = r.IntN(4)
		case bNewConsumer:
			ncons++
		case bSlice, bSize:
		default:
			if ncons == 0 {
				op.Kind = bNewConsumer
				ncons++
			} else {
				op.Cons = r.IntN(ncons)
			}
		}
		ops = append(ops, op)
	}
	return ops
}

func reportSeq(c *core.Ctx, cs cleanerSpec, ops []seqOp, res *seqResult) {
	if res.mismatch != "" {
		c.Violate(res.key, "%s\n  cleaner %s; trace: %v", res.mismatch, cs, res.trace)
	}
}
