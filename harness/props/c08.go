package props

import (
	"fmt"
	"math"
	"strings"
	"sync"
	"sync/atomic"
	"time"

	bigbuff "github.com/joeycumines/go-bigbuff"

	"verif/core"
)

// C08 — ChanCaster: Send reaches exactly the registered receivers, once, and counts them.

var casterSites = []string{"caster.send.locked", "caster.send.armed", "caster.send.sent", "caster.send.drained", "caster.add.pos.locked", "caster.add.neg.applied"}

func init() {
	core.Register(&core.Property{
		ID: "C08",
		Rule: "closed: R receivers register (Add(+1) each or one Add(R)) and return before Send is called; D of them deregister with Add(-1) instead of receiving (some before the Send, some after it armed, signalled by the caster.send.armed hook), L late registrants call Add(+1) during the Send and are served (or deregister) by a second Send; " +
			"oracle: first Send returns R-D, its value is received exactly once by each of the R-D receivers and by nobody else, the second Send serves exactly the late receivers, every call returns within the bound, Add(0)==0 at the end; multi: 2-3 concurrent senders with re-registering receivers, per-value receipts == return value; buffered: receivers that always receive; " +
			"add-reference: every sequence of <=3 Adds over deltas {0,+-1,+-2,+-MaxInt32,+-(MaxInt32+1),MinInt,MaxInt,+-2^32,2^32+3,2^33+1,MaxUint32} (complete) against the sequential registration-count reference: return values, panics with the package's own message, and one panicking follow-up call of each kind after an unbalanced Add. " +
			"misuse-during-send: an unbalanced Add lands while a Send is armed and mid-delivery; that Add, the Send and one or two later calls (Send, Add(+1), Add(0), Add(-1)) must each panic with the package's message within the bound, never block. " +
			"non-trivial = a deregistration or a late registration raced an armed Send / senders overlapped; distinct = distinct parameter+outcome signatures",
		Assumptions: []string{
			"receivers follow the contract: receive only after their Add returned, receive exactly once or deregister",
			"after an unbalanced Add only the next call (one of each kind, each on a fresh instance) is asserted to panic; longer misuse chains can wrap the packed words back into range (DESIGN.md C08)",
		},
		Families: []core.Family{
			{Name: "closed", N: core.TierN(1500, 80000), Batch: 50, Run: c08Closed},
			{Name: "multi-sender", N: core.TierN(300, 12000), Batch: 20, Run: c08Multi},
			{Name: "add-reference", N: core.TierN(1, 1), Solo: true, Run: c08AddRef},
			{Name: "misuse-during-send", N: core.TierN(60, 2400), Batch: 10, Run: c08MisuseDuringSend},
			{Name: "sole-receiver-churn", N: core.TierN(12, 480), Batch: 2, Run: c08SoleChurn},
		},
	})
}

func c08Closed(c *core.Ctx) {
	R := 1 + c.Rng.IntN(8)
	D := c.Rng.IntN(R + 1)
	dBefore := 0
	if D > 0 {
		dBefore = c.Rng.IntN(D + 1)
	}
	L := c.Rng.IntN(4)
	capacity := 0
	if D == 0 && c.Rng.IntN(4) == 0 {
		capacity = core.Pick(c.Rng, 1, R, 2*R)
		L = 0 // with a buffered channel a Send returns while its copies sit in the buffer: a later receiver would share them
	}
	bulkAdd := c.Rng.IntN(3) == 0
	ch := make(chan int, capacity)
	x := bigbuff.NewChanCaster(ch)
	p := c.RandomPerturb(casterSites)
	defer p.Stop()
	armed := make(chan struct{})
	var armedOnce sync.Once
	p.On("caster.send.armed", func(int64) { armedOnce.Do(func() { close(armed) }) })

	var panics atomic.Int64
	var pmu sync.Mutex
	var panicMsgs []string
	guard := func(what string, fn func()) {
		if pv := core.Recover(fn); pv != nil {
			panics.Add(1)
			pmu.Lock()
			panicMsgs = append(panicMsgs, fmt.Sprintf("%s: %v", what, pv))
			pmu.Unlock()
		}
	}
	type receipt struct {
		who int
		v   int
	}
	var rmu sync.Mutex
	var receipts []receipt
	recv := func(who int) {
		v := <-x.C
		rmu.Lock()
		receipts = append(receipts, receipt{who, v})
		rmu.Unlock()
	}
	var wg sync.WaitGroup
	registered := make(chan struct{}, R)
	deregBeforeDone := make(chan struct{}, R)
	if bulkAdd {
		guard("Add(R)", func() {
			if n := x.Add(R); n != R {
				c.Violate("add-return", "Add(%d) on a fresh caster returned %d", R, n)
			}
		})
	}
	for i := 0; i < R; i++ {
		i := i
		role := "receive"
		if i < dBefore {
			role = "dereg-before"
		} else if i < D {
			role = "dereg-during"
		}
		delay := time.Duration(c.Rng.IntN(300)) * time.Microsecond
		wg.Add(1)
		go func() {
			defer wg.Done()
			if !bulkAdd {
				guard("Add(+1)", func() { x.Add(1) })
			}
			registered <- struct{}{}
			switch role {
			case "dereg-before":
				guard("Add(-1)", func() { x.Add(-1) })
				deregBeforeDone <- struct{}{}
			case "dereg-during":
				<-armed
				time.Sleep(delay / 4)
				guard("Add(-1)", func() { x.Add(-1) })
			default:
				time.Sleep(delay)
				guard("receive", func() { recv(i) })
			}
		}()
	}
	for i := 0; i < R; i++ {
		<-registered
	}
	for i := 0; i < dBefore; i++ {
		<-deregBeforeDone
	}
	// late registrants: request registration once the Send is armed
	lateRole := make([]string, L)
	lateRegistered := make(chan int, L)
	var lateWG sync.WaitGroup
	lateGo := make(chan struct{})
	for j := 0; j < L; j++ {
		j := j
		lateRole[j] = core.Pick(c.Rng, "receive", "dereg")
		lateWG.Add(1)
		go func() {
			defer lateWG.Done()
			select {
			case <-armed:
			case <-lateGo: // the Send never armed (nothing registered): register afterwards
			}
			guard("late Add(+1)", func() { x.Add(1) })
			lateRegistered <- j
			if lateRole[j] == "dereg" {
				guard("late Add(-1)", func() { x.Add(-1) })
			} else {
				guard("late receive", func() { recv(100 + j) })
			}
		}()
	}
	v1, v2 := 1001, 1002
	if c.Rng.IntN(2) == 0 {
		v1 = 0 // the zero value is a value like any other
	}
	n1 := -1
	sendDone := core.Go(func() { guard("Send", func() { n1 = x.Send(v1) }) })
	desc := fmt.Sprintf("R=%d D=%d (before=%d) L=%d cap=%d bulk=%v", R, D, dBefore, L, capacity, bulkAdd)
	if !core.AwaitDone(sendDone, 10000) {
		c.Violate("send-blocked", "Send did not return although every receiver follows the contract; %s", desc)
		c.SetDump(core.DumpAll())
		return
	}
	close(lateGo)
	if !core.AwaitDone(core.Go(wg.Wait), 10000) {
		c.Violate("receiver-blocked", "a receiver or deregistration did not return after Send returned %d; %s", n1, desc)
		c.SetDump(core.DumpAll())
		return
	}
	if panics.Load() == 0 && n1 != R-D {
		c.Violate("send-count", "Send returned %d, want %d (registered %d, deregistered %d); %s", n1, R-D, R, D, desc)
	}
	rmu.Lock()
	got1 := 0
	seen := map[int]int{}
	for _, r := range receipts {
		if r.v == v1 {
			got1++
			seen[r.who]++
			if r.who >= 100 {
				c.Violate("late-served", "a registration made during the Send received that Send's value; %s", desc)
			}
		}
	}
	rmu.Unlock()
	for who, k := range seen {
		if k > 1 {
			c.Violate("double-delivery", "receiver %d got the value %d times; %s", who, k, desc)
		}
	}
	if got1 != n1 && panics.Load() == 0 {
		c.Violate("receipts-vs-count", "Send returned %d but its value was received %d times; %s", n1, got1, desc)
	}
	// second Send serves exactly the late receivers
	for j := 0; j < L; j++ {
		if _, _, ok := core.AwaitChan(lateRegistered, 10000); !ok {
			c.Violate("late-add-blocked", "a positive Add requested during the Send never returned; %s", desc)
			c.SetDump(core.DumpAll())
			return
		}
	}
	wantLate := 0
	for _, r := range lateRole {
		if r == "receive" {
			wantLate++
		}
	}
	n2 := -1
	send2 := core.Go(func() { guard("Send2", func() { n2 = x.Send(v2) }) })
	if !core.AwaitDone(send2, 10000) || !core.AwaitDone(core.Go(lateWG.Wait), 10000) {
		c.Violate("send-blocked", "second Send (for %d late registrants) did not complete; %s", L, desc)
		c.SetDump(core.DumpAll())
		return
	}
	rmu.Lock()
	got2 := 0
	for _, r := range receipts {
		if r.v == v2 {
			got2++
			if r.who < 100 {
				c.Violate("stale-receiver-served", "a receiver of the first Send also received the second value; %s", desc)
			}
		}
	}
	rmu.Unlock()
	if panics.Load() == 0 {
		// late deregistrations may land before or during the second Send: n2 is between wantLate and... exactly wantLate once all returned
		if n2 != wantLate || got2 != wantLate {
			c.Violate("late-send-count", "second Send returned %d and was received %d times, want %d; %s", n2, got2, wantLate, desc)
		}
		var fin int
		guard("Add(0)", func() { fin = x.Add(0) })
		if fin != 0 {
			c.Violate("final-count", "Add(0)=%d after everything was delivered or deregistered; %s", fin, desc)
		}
	}
	if panics.Load() > 0 {
		c.Violate("false-panic", "%d calls panicked although the contract was obeyed: %v; %s", panics.Load(), panicMsgs, desc)
	}
	c.Op("send", 2)
	c.Op("add", R+D+2*L)
	c.Op("receive", got1+got2)
	if D-dBefore > 0 || L > 0 {
		c.Nontrivial()
	}
	c.Sig(R, D, dBefore, L, capacity, bulkAdd, n1, n2)
	if c.Index < 2 {
		c.SetHistory(desc + fmt.Sprintf(" -> first Send=%d (received %d), second Send=%d (received %d)", n1, got1, n2, got2))
	}
}

// c08Multi: concurrent senders; receivers register, receive one value, re-register; per value receipts == return.
func c08Multi(c *core.Ctx) {
	senders := 2 + c.Rng.IntN(2)
	perSender := 5 + c.Rng.IntN(20)
	nRecv := 1 + c.Rng.IntN(6)
	ch := make(chan int)
	x := bigbuff.NewChanCaster(ch)
	p := c.RandomPerturb(casterSites)
	defer p.Stop()
	var mu sync.Mutex
	receipts := map[int]int{}
	returns := map[int]int{}
	var stop atomic.Bool
	var panicked atomic.Int64
	var pmsg atomic.Value
	var rwg, swg sync.WaitGroup
	for i := 0; i < nRecv; i++ {
		rwg.Add(1)
		seed := c.Rng.Uint64()
		go func() {
			defer rwg.Done()
			r := newRand(seed)
			for !stop.Load() {
				if pv := core.Recover(func() { x.Add(1) }); pv != nil {
					panicked.Add(1)
					pmsg.Store(fmt.Sprint(pv))
					return
				}
				if r.IntN(5) == 0 {
					// change of mind: deregister instead of receiving
					if pv := core.Recover(func() { x.Add(-1) }); pv != nil {
						panicked.Add(1)
						pmsg.Store(fmt.Sprint(pv))
						return
					}
					continue
				}
				t := time.NewTimer(time.Duration(50+r.IntN(500)) * time.Microsecond)
				select {
				case v := <-x.C:
					mu.Lock()
					receipts[v]++
					mu.Unlock()
				case <-t.C:
					// not received: must deregister (which may absorb a value that is being sent)
					if pv := core.Recover(func() { x.Add(-1) }); pv != nil {
						panicked.Add(1)
						pmsg.Store(fmt.Sprint(pv))
						t.Stop()
						return
					}
				}
				t.Stop()
			}
		}()
	}
	var overlap atomic.Int64
	var inSend atomic.Int64
	for s := 0; s < senders; s++ {
		s := s
		swg.Add(1)
		seed := c.Rng.Uint64()
		go func() {
			defer swg.Done()
			r := newRand(seed)
			for k := 0; k < perSender; k++ {
				v := (s+1)*10000 + k
				var n int
				if inSend.Add(1) > 1 {
					overlap.Add(1)
				}
				pv := core.Recover(func() { n = x.Send(v) })
				inSend.Add(-1)
				if pv != nil {
					panicked.Add(1)
					pmsg.Store(fmt.Sprint(pv))
					return
				}
				mu.Lock()
				returns[v] = n
				mu.Unlock()
				if r.IntN(3) == 0 {
					time.Sleep(time.Duration(r.IntN(100)) * time.Microsecond)
				}
			}
		}()
	}
	desc := fmt.Sprintf("senders=%d x %d receivers=%d", senders, perSender, nRecv)
	if !core.AwaitDone(core.Go(swg.Wait), 20000) {
		c.Violate("send-blocked", "senders did not finish; %s", desc)
		c.SetDump(core.DumpAll())
		stop.Store(true)
		return
	}
	stop.Store(true)
	if !core.AwaitDone(core.Go(rwg.Wait), 20000) {
		c.Violate("receiver-blocked", "receivers did not finish; %s", desc)
		c.SetDump(core.DumpAll())
		return
	}
	if panicked.Load() > 0 {
		c.Violate("false-panic", "a call panicked although the contract was obeyed: %v; %s", pmsg.Load(), desc)
		return
	}
	mu.Lock()
	total := 0
	for v, n := range returns {
		if receipts[v] != n {
			c.Violate("receipts-vs-count", "Send(%d) returned %d but the value was received %d times; %s", v, n, receipts[v], desc)
		}
		total += n
	}
	for v := range receipts {
		if _, ok := returns[v]; !ok {
			c.Violate("invented-value", "value %d was received but never sent; %s", v, desc)
		}
	}
	mu.Unlock()
	if fin := x.Add(0); fin != 0 {
		c.Violate("final-count", "Add(0)=%d at the end; %s", fin, desc)
	}
	c.Op("send", senders*perSender)
	c.Op("receive", total)
	c.Count("overlapping_sends", int(overlap.Load()))
	if total > 0 {
		c.Nontrivial()
	}
	c.Sig(senders, perSender, nRecv, total > 0, overlap.Load() > 0)
}

// c08AddRef: complete enumeration of Add sequences over boundary deltas against the sequential reference.
func c08AddRef(c *core.Ctx) {
	const maxR = math.MaxInt32
	deltas := []int{0, 1, -1, 2, -2, maxR, -maxR, maxR + 1, -maxR - 1, math.MinInt, math.MaxInt, maxR - 1, 1 - maxR, 1 << 32, 1<<32 + 3, -(1 << 32), -(1<<32 + 1), 1<<33 + 1, math.MaxUint32}
	type outcome struct {
		panicked bool
		ret      int
		msg      string
	}
	call := func(fn func() int) outcome {
		var o outcome
		if pv := core.Recover(func() { o.ret = fn() }); pv != nil {
			o.panicked = true
			o.msg = fmt.Sprint(pv)
		}
		return o
	}
	cases := 0
	var rec func(seq []int)
	check := func(seq []int) {
		cases++
		x := bigbuff.NewChanCaster(make(chan int))
		n := 0 // reference registered count
		for i, d := range seq {
			o := call(func() int { return x.Add(d) })
			desc := fmt.Sprintf("Add sequence %v (step %d)", seq, i)
			outOfRange := d > maxR || d < -maxR
			unbalanced := !outOfRange && (n+d > maxR || n+d < 0)
			switch {
			case outOfRange || unbalanced:
				if !o.panicked {
					c.Violate("misuse-unnoticed", "%s: Add(%d) with %d registered returned %d instead of panicking", desc, d, n, o.ret)
					return
				}
				if isRuntimePanic(o.msg) {
					c.Violate("foreign-panic", "%s: misuse surfaced as a Go runtime error (%q), not as a reported panic", desc, o.msg)
				}
				if unbalanced {
					// one follow-up call of each kind, each on a fresh instance brought to the same state
					for fi, kind := range []string{"Add(0)", "Send", "Add(+1)", "Add(-1)", "Add(-1)", "Add(-5)", "Send", "Add(0)"} {
						y := bigbuff.NewChanCaster(make(chan int))
						for _, pd := range seq[:i] {
							y.Add(pd)
						}
						core.Recover(func() { y.Add(d) })
						if fi >= 4 {
							// the same misuse once or twice more (each recovered) before the follow-up: however far the
							// internal counters have been pushed by then, the instance still reports it
							for rep := 0; rep <= fi%2; rep++ {
								core.Recover(func() { y.Add(d) })
							}
						}
						var f outcome
						returned := core.AwaitDone(core.Go(func() {
							f = call(func() int {
								switch kind {
								case "Add(0)":
									return y.Add(0)
								case "Send":
									return y.Send(1)
								case "Add(+1)":
									return y.Add(1)
								case "Add(-5)":
									return y.Add(-5)
								default:
									return y.Add(-1)
								}
							})
						}), 3000)
						cases++
						if !returned {
							// (the goroutine stays behind, blocked; this family has its process to itself)
							c.Violate("followup-blocked", "%s: after the unbalanced Add(%d), %s neither panicked nor returned: the misuse went unnoticed and the call is stuck", desc, d, kind)
						} else if !f.panicked {
							c.Violate("followup-unnoticed", "%s: after the unbalanced Add(%d), %s returned %d instead of panicking", desc, d, kind, f.ret)
						} else if isRuntimePanic(f.msg) {
							c.Violate("foreign-panic", "%s: follow-up %s surfaced as a Go runtime error (%q)", desc, kind, f.msg)
						}
					}
				}
				return // nothing further is asserted after misuse
			default:
				if o.panicked {
					c.Violate("false-panic", "%s: Add(%d) with %d registered panicked: %s", desc, d, n, o.msg)
					return
				}
				n += d
				if o.ret != n {
					c.Violate("add-return", "%s: Add(%d) returned %d, want %d", desc, d, o.ret, n)
					return
				}
			}
		}
		if n == 0 {
			if o := call(func() int { return x.Send(7) }); o.panicked || o.ret != 0 {
				c.Violate("send-empty", "Add sequence %v leaves 0 registered but Send returned %d panic=%v", seq, o.ret, o.panicked)
			}
		}
	}
	rec = func(seq []int) {
		if len(seq) > 0 {
			check(seq)
		}
		if len(seq) == 3 {
			return
		}
		for _, d := range deltas {
			rec(append(append([]int(nil), seq...), d))
		}
	}
	rec(nil)
	c.Op("add_sequence", cases)
	c.ExhaustiveFamily("Add sequences of length<=3 over 19 boundary deltas (incl. >= 2^32 with a small low word) (+ follow-up calls after unbalanced Adds)", cases)
	c.Nontrivial()
	c.Sig("addref", cases)
}

// c08MisuseDuringSend: Add(R); a Send delivers its first value; an unbalanced Add(-(R+1)) lands while the Send is
// armed; the remaining receivers receive; the Send must panic at its final validation, and every later call must
// panic too (within the bound) instead of blocking or succeeding.
func c08MisuseDuringSend(c *core.Ctx) {
	R := 2 + c.Rng.IntN(3)
	x := bigbuff.NewChanCaster(make(chan int))
	p := c.NewPerturb(core.PerturbOpts{P: core.Pick(c.Rng, 0, 0.1)})
	defer p.Stop()
	x.Add(R)
	type res struct {
		pv  any
		ret int
	}
	run := func(fn func() int) <-chan res {
		out := make(chan res, 1)
		go func() {
			var r res
			r.pv = core.Recover(func() { r.ret = fn() })
			out <- r
		}()
		return out
	}
	sendOut := run(func() int { return x.Send(5) })
	if _, _, ok := core.AwaitChan(x.C, 5000); !ok { // first delivery
		c.Inconclusive("first delivery did not arrive")
		return
	}
	desc := fmt.Sprintf("Add(%d); Send delivered 1 value; Add(%d)", R, -(R + 1))
	bad := run(func() int { return x.Add(-(R + 1)) })
	r, _, ok := core.AwaitChan(bad, 5000)
	if !ok {
		c.Violate("misuse-blocked", "the unbalanced Add blocked instead of panicking; %s", desc)
		c.SetDump(core.DumpAll())
		return
	}
	if r.pv == nil {
		c.Violate("misuse-unnoticed", "the unbalanced Add returned %d instead of panicking; %s", r.ret, desc)
	}
	for i := 1; i < R; i++ { // the remaining receivers still receive (contract)
		if _, _, ok := core.AwaitChan(x.C, 5000); !ok {
			break
		}
	}
	sr, _, ok := core.AwaitChan(sendOut, 5000)
	if !ok {
		c.Violate("send-blocked", "Send did not return after the remaining receivers received; %s", desc)
		c.SetDump(core.DumpAll())
		return
	}
	if sr.pv == nil {
		c.Violate("misuse-unnoticed", "Send returned %d although the state was corrupted during it; %s", sr.ret, desc)
	}
	// later calls: each must panic (package message), none may block
	later := []string{"Send", "Add(+1)", "Add(0)", "Add(-1)", "Send"}
	c.Rng.Shuffle(len(later), func(i, j int) { later[i], later[j] = later[j], later[i] })
	later = later[:1+c.Rng.IntN(2)]
	for _, kind := range later {
		out := run(func() int {
			switch kind {
			case "Send":
				return x.Send(6)
			case "Add(+1)":
				return x.Add(1)
			case "Add(0)":
				return x.Add(0)
			default:
				return x.Add(-1)
			}
		})
		lr, _, ok := core.AwaitChan(out, 5000)
		if !ok {
			c.Violate("later-call-blocked", "after the misuse, a later %s blocked instead of panicking; %s", kind, desc)
			c.SetDump(core.DumpAll())
			return
		}
		if lr.pv == nil {
			c.Violate("followup-unnoticed", "after the misuse, a later %s returned %d instead of panicking; %s", kind, lr.ret, desc)
			return
		} else if isRuntimePanic(fmt.Sprint(lr.pv)) {
			c.Violate("foreign-panic", "later %s surfaced as a Go runtime error (%v); %s", kind, lr.pv, desc)
		}
		break // only the first later call is asserted (later ones can see a state walked back into range)
	}
	c.Op("misuse_sequence", 1)
	c.Nontrivial()
	c.Sig("misuse", R, later[0])
}

// isRuntimePanic: a panic raised by the Go runtime (nil dereference, index out of range, ...) rather than by the
// library reporting misuse; the wording of the library's own panic messages is not asserted.
func isRuntimePanic(msg string) bool {
	return strings.HasPrefix(msg, "runtime error:") || strings.Contains(msg, "all goroutines are asleep")
}

// c08SoleChurn: a single receiver registers and, if nothing is on offer, deregisters again, in a tight loop, while a
// sender sends in a tight loop: the registered count keeps going 0 -> 1 -> 0 right under Send's feet (including
// between Send's reading of the state and its arming it). No call may panic, and what the Sends report equals what was
// received.
func c08SoleChurn(c *core.Ctx) {
	triples := 2 + c.Rng.IntN(3)
	cycles := 20000
	if c.Thorough() {
		cycles = 60000
	}
	var wg sync.WaitGroup
	var panicked atomic.Int64
	var pmsg atomic.Value
	var sent, reported, received, absorbed atomic.Int64
	for t := 0; t < triples; t++ {
		x := bigbuff.NewChanCaster(make(chan int))
		var done atomic.Bool
		wg.Add(2)
		go func() { // receiver
			defer wg.Done()
			defer done.Store(true)
			for i := 0; i < cycles; i++ {
				if pv := core.Recover(func() { x.Add(1) }); pv != nil {
					panicked.Add(1)
					pmsg.Store(fmt.Sprintf("Add(1): %v", pv))
					return
				}
				select {
				case <-x.C:
					received.Add(1)
				default:
					if pv := core.Recover(func() { x.Add(-1) }); pv != nil {
						panicked.Add(1)
						pmsg.Store(fmt.Sprintf("Add(-1): %v", pv))
						return
					}
					absorbed.Add(1)
				}
			}
		}()
		go func() { // sender
			defer wg.Done()
			for i := 0; !done.Load(); i++ {
				var n int
				if pv := core.Recover(func() { n = x.Send(i) }); pv != nil {
					panicked.Add(1)
					pmsg.Store(fmt.Sprintf("Send #%d: %v", i, pv))
					return
				}
				sent.Add(1)
				reported.Add(int64(n))
				if n > 1 {
					panicked.Add(1)
					pmsg.Store(fmt.Sprintf("Send #%d returned %d with a single receiver", i, n))
					return
				}
			}
		}()
	}
	if !core.AwaitDone(core.Go(wg.Wait), 60000) {
		c.Violate("blocked", "a tight register/deregister loop against a tight Send loop did not finish (%d triples)", triples)
		c.SetDump(core.DumpAll())
		return
	}
	if panicked.Load() > 0 {
		c.Violate("false-panic", "a call failed although the contract was obeyed (one receiver: Add(1), then receive or Add(-1); one sender): %v", pmsg.Load())
	} else if reported.Load() != received.Load() {
		c.Violate("receipts-vs-count", "the Sends reported %d deliveries in total but %d values were received", reported.Load(), received.Load())
	}
	c.Op("send", int(sent.Load()))
	c.Op("receive", int(received.Load()))
	c.Count("deregistrations", int(absorbed.Load()))
	if received.Load() > 0 && absorbed.Load() > 0 {
		c.Nontrivial()
	}
	c.Sig("sole-churn", triples, received.Load() > 0)
}
