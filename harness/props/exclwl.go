package props

import (
	"context"
	"fmt"
	"math"
	"strings"
	"sync"
	"sync/atomic"
	"time"

	bigbuff "github.com/joeycumines/go-bigbuff"

	"verif/core"
)

// Shared Exclusive workload (C09: mutual exclusion per key, C10: answered by a later execution, none lost).

var exclSites = []string{"excl.call.fetched", "excl.run.claimed", "excl.run.replaced", "excl.run.worked"}

type exRes struct{ exec int }

type exError struct{ exec int }

func (e *exError) Error() string { return fmt.Sprintf("exec %d failed", e.exec) }

type exExec struct {
	id       int
	key      int
	supplier int
	start    int64
	end      int64
	res      *exRes
	err      error
}

type exCall struct {
	id        int
	key       int
	style     string
	work      string // value | early | never | twice | ratelimit | async
	wait      time.Duration
	start     bool // start-style (no outcome)
	callStamp int64
	retStamp  int64
	outcomes  int
	nilOut    bool
	res       interface{}
	err       error
	runs      atomic.Int32
}

type exRun struct {
	outer       []atomic.Int64 // per key: 1 + id of the call whose own wrapper (monitor) is currently around the running work; 0 = none
	rlShared    bigbuff.ExclusiveOption
	rejected    atomic.Int64 // invalid (panicking, recovered) calls made in between
	c           *core.Ctx
	e           *bigbuff.Exclusive
	keys        int
	active      []atomic.Int32
	inner       []atomic.Int32 // user-level function bodies (they may outlive a wrapper that returns early)
	workStart   []atomic.Int64 // latest stamp at which a (wrapped) work function of the key was entered
	overlap     atomic.Int64
	rlCancelled atomic.Bool
	mu          sync.Mutex
	execs       []*exExec
	calls       []*exCall
	probs       []anomaly
	rlCtx       context.Context
}

func (r *exRun) problem(cat, key, format string, args ...any) {
	r.mu.Lock()
	if len(r.probs) < 30 {
		r.probs = append(r.probs, anomaly{cat, key, fmt.Sprintf(format, args...)})
	}
	r.mu.Unlock()
}

func (r *exRun) enter(key int, who string) {
	if n := r.active[key].Add(1); n > 1 {
		r.overlap.Add(1)
		r.problem("mutex", "overlap", "%d work functions of key %d are inside their bodies at once (entering: %s)", n, key, who)
	}
}

func (r *exRun) leave(key int) { r.active[key].Add(-1) }

func (r *exRun) enterInner(key int, who string) {
	if r.inner == nil {
		return
	}
	if n := r.inner[key].Add(1); n > 1 {
		r.overlap.Add(1)
		r.problem("mutex", "overlap", "%d user work functions of key %d are running at once (entering: %s)", n, key, who)
	}
}

func (r *exRun) leaveInner(key int) {
	if r.inner != nil {
		r.inner[key].Add(-1)
	}
}

func (r *exRun) newExec(call *exCall) *exExec {
	if call.runs.Add(1) > 1 {
		r.problem("answer", "function-ran-twice", "the function supplied by call %d (%s) was executed more than once", call.id, call.style)
	}
	if call.key < len(r.outer) {
		switch o := r.outer[call.key].Load(); {
		case call.style == "Options" && o == 0:
			r.problem("answer", "wrapper-dropped", "the work supplied by call %d (CallWithOptions, with a wrapper) was executed without that wrapper around it", call.id)
		case call.style == "Options" && o != int64(call.id)+1:
			r.problem("answer", "foreign-wrapper", "the work supplied by call %d was executed inside the wrapper supplied by call %d: a function nobody supplied", call.id, o-1)
		case call.style != "Options" && o != 0:
			r.problem("answer", "foreign-wrapper", "the plain function supplied by call %d (%s) was executed inside the wrapper supplied by call %d: a function nobody supplied", call.id, call.style, o-1)
		}
	}
	r.mu.Lock()
	e := &exExec{id: len(r.execs), key: call.key, supplier: call.id}
	e.res = &exRes{e.id}
	if e.id%4 == 0 {
		e.err = &exError{e.id}
	}
	r.execs = append(r.execs, e)
	r.mu.Unlock()
	e.start = core.Now()
	return e
}

// valueFn builds a func() (interface{}, error) for the call; counted is whether it maintains the active counter
// itself (true unless an outer monitoring wrapper does).
func (r *exRun) valueFn(call *exCall, body func(), counted bool) func() (interface{}, error) {
	return func() (interface{}, error) {
		if counted {
			r.enter(call.key, call.style)
			defer r.leave(call.key)
		}
		r.enterInner(call.key, call.style)
		defer r.leaveInner(call.key)
		e := r.newExec(call)
		if body != nil {
			body()
		}
		e.end = core.Now()
		return e.res, e.err
	}
}

func (r *exRun) workFn(call *exCall, body, tail func()) bigbuff.WorkFunc {
	return func(resolve func(interface{}, error)) {
		r.enterInner(call.key, call.style)
		defer r.leaveInner(call.key)
		e := r.newExec(call)
		if body != nil {
			body()
		}
		switch call.work {
		case "early":
			resolve(e.res, e.err)
			if tail != nil {
				tail() // keeps running after it resolved (the rate-limited shape)
			}
		case "twice":
			resolve(e.res, e.err)
			resolve(&exRes{-1}, nil)
		case "never":
		case "async":
			// resolves from another goroutine at about the moment the work function returns: the library's own
			// fallback resolve and this one race; exactly one of them must win
			go func() {
				if tail != nil {
					spin(3)
				}
				resolve(e.res, e.err)
			}()
		}
		e.end = core.Now()
	}
}

// monitor is the outermost wrapper: the active counter covers the whole work function, incl. inner wrappers' tails.
func (r *exRun) monitor(call *exCall) bigbuff.ExclusiveOption {
	return bigbuff.ExclusiveWrapper(func(inner bigbuff.WorkFunc) bigbuff.WorkFunc {
		return func(resolve func(interface{}, error)) {
			r.enter(call.key, call.style)
			defer r.leave(call.key)
			if r.workStart != nil {
				// an execution of the key's work began here, even if an inner wrapper (the rate limiter with a
				// cancelled context) resolves without ever invoking the user's function
				st := core.Now()
				for {
					cur := r.workStart[call.key].Load()
					if st <= cur || r.workStart[call.key].CompareAndSwap(cur, st) {
						break
					}
				}
			}
			// the options of a call belong together: the wrappers a call supplied go around the work that call supplied
			if call.key < len(r.outer) {
				r.outer[call.key].Store(int64(call.id) + 1)
				defer r.outer[call.key].Store(0)
			}
			inner(resolve)
		}
	})
}

func (r *exRun) collect(call *exCall, ch <-chan *bigbuff.ExclusiveOutcome) {
	if ch == nil {
		if !call.start {
			r.problem("answer", "nil-channel", "call %d (%s) returned a nil outcome channel", call.id, call.style)
		}
		call.retStamp = core.Now()
		return
	}
	if call.start {
		r.problem("answer", "start-channel", "start-style call %d returned a non-nil channel", call.id)
	}
	for {
		o, ok, got := core.AwaitChan(ch, 20000)
		if !got {
			r.problem("answer", "no-outcome", "call %d (%s, key %d, work %s) never received its outcome", call.id, call.style, call.key, call.work)
			break
		}
		if !ok {
			break
		}
		call.outcomes++
		if o == nil {
			call.nilOut = true
		} else if call.outcomes == 1 {
			call.res, call.err = o.Result, o.Error
			// the outcome handed to a caller is that caller's: annotating it (as callers do: wrap the error, replace
			// the result) must not change what the other callers of the same execution receive
			o.Result, o.Error = fmt.Sprintf("overwritten by caller %d", call.id), fmt.Errorf("annotated by caller %d", call.id)
		}
	}
	call.retStamp = core.Now()
}

// issue performs the call (blocking until its outcome for non-start styles).
func (r *exRun) issue(call *exCall, rng interface{ IntN(int) int }) {
	dur := func(max int) time.Duration { return time.Duration(rng.IntN(max)) * time.Microsecond }
	var body func()
	switch rng.IntN(4) {
	case 0:
		d := dur(300)
		body = func() { time.Sleep(d) }
	case 1:
		n := rng.IntN(40)
		body = func() { spin(n) }
	}
	tailD := dur(400)
	tail := func() { time.Sleep(tailD) }
	key := interface{}(call.key)
	call.callStamp = core.Now()
	switch call.style {
	case "Call":
		res, err := r.e.Call(key, r.valueFn(call, body, true))
		call.outcomes, call.res, call.err = 1, res, err
		call.retStamp = core.Now()
	case "CallAfter":
		res, err := r.e.CallAfter(key, r.valueFn(call, body, true), call.wait)
		call.outcomes, call.res, call.err = 1, res, err
		call.retStamp = core.Now()
	case "CallAsync":
		r.collect(call, r.e.CallAsync(key, r.valueFn(call, body, true)))
	case "CallAfterAsync":
		r.collect(call, r.e.CallAfterAsync(key, r.valueFn(call, body, true), call.wait))
	case "Start":
		r.e.Start(key, r.valueFn(call, body, true))
		call.retStamp = core.Now()
	case "StartAfter":
		r.e.StartAfter(key, r.valueFn(call, body, true), call.wait)
		call.retStamp = core.Now()
	case "Options":
		opts := []bigbuff.ExclusiveOption{bigbuff.ExclusiveKey(key)}
		switch call.work {
		case "value":
			opts = append(opts, bigbuff.ExclusiveValue(r.valueFn(call, body, false)))
		case "ratelimit":
			rl := r.rlShared // one option value shared by every key and caller of the run (options are plain values)
			if rl == nil || rng.IntN(2) == 0 {
				rl = bigbuff.ExclusiveRateLimit(r.rlCtx, time.Duration(50+rng.IntN(600))*time.Microsecond)
			}
			opts = append(opts, rl, bigbuff.ExclusiveValue(r.valueFn(call, body, false)))
		default:
			opts = append(opts, bigbuff.ExclusiveWork(r.workFn(call, body, tail)))
		}
		if call.wait > 0 {
			opts = append(opts, bigbuff.ExclusiveWait(call.wait))
		}
		if call.start {
			opts = append(opts, bigbuff.ExclusiveStart(true))
		}
		opts = append(opts, r.monitor(call)) // outermost
		if rng.IntN(2) == 0 {
			// option order must not matter
			opts[0], opts[len(opts)-2] = opts[len(opts)-2], opts[0]
		}
		r.collect(call, r.e.CallWithOptions(opts...))
	}
}

var exStyles = []string{"Call", "CallAfter", "CallAsync", "CallAfterAsync", "Start", "StartAfter", "Options", "Options", "Options"}
var exWorks = []string{"value", "early", "early", "never", "twice", "ratelimit", "async", "async"}

func runExclusive(c *core.Ctx, keys, callers, perCaller int) *exRun {
	r := &exRun{c: c, e: new(bigbuff.Exclusive), keys: keys, active: make([]atomic.Int32, keys), inner: make([]atomic.Int32, keys), outer: make([]atomic.Int64, keys), workStart: make([]atomic.Int64, keys), rlCtx: context.Background()}
	if c.Rng.IntN(2) == 0 {
		// the rate limiter's context is cancelled somewhere in the middle of the run (other call styles go on)
		ctx, cancel := context.WithCancel(context.Background())
		r.rlCtx = ctx
		d := time.Duration(c.Rng.IntN(1500)) * time.Microsecond
		t := time.AfterFunc(d, func() { r.rlCancelled.Store(true); cancel() })
		defer t.Stop()
		defer cancel()
	}
	r.rlShared = bigbuff.ExclusiveRateLimit(r.rlCtx, time.Duration(100+c.Rng.IntN(500))*time.Microsecond)
	var wg sync.WaitGroup
	for cl := 0; cl < callers; cl++ {
		seed := c.Rng.Uint64()
		wg.Add(1)
		go func() {
			defer wg.Done()
			rng := newRand(seed)
			for i := 0; i < perCaller; i++ {
				call := &exCall{key: rng.IntN(keys), style: exStyles[rng.IntN(len(exStyles))], work: "value"}
				switch call.style {
				case "CallAfter", "CallAfterAsync", "StartAfter":
					// (a wait <= 0 is documented as "ignored": that includes the most negative Duration, which is what
					// deadline.Sub(now) saturates to for an unset deadline)
					call.wait = core.Pick(rng, 0, 50*time.Microsecond, 2*time.Millisecond, 50*time.Microsecond, 2*time.Millisecond, -1, -time.Hour, time.Duration(math.MinInt64), time.Time{}.Sub(time.Now()))
				case "Options":
					call.work = exWorks[rng.IntN(len(exWorks))]
					call.wait = core.Pick(rng, 0, 0, 50*time.Microsecond, 2*time.Millisecond)
					call.start = rng.IntN(4) == 0
				}
				if call.style == "Start" || call.style == "StartAfter" {
					call.start = true
				}
				r.mu.Lock()
				call.id = len(r.calls)
				r.calls = append(r.calls, call)
				r.mu.Unlock()
				r.issue(call, rng)
				if rng.IntN(16) == 0 {
					// a call the documentation rejects (nil work), recovered by its caller: no effect on anybody else
					k := rng.IntN(keys)
					core.Recover(func() {
						if rng.IntN(2) == 0 {
							r.e.Call(k, nil)
						} else {
							r.e.CallWithOptions(bigbuff.ExclusiveKey(k))
						}
					})
					r.rejected.Add(1)
				}
				if rng.IntN(3) == 0 {
					time.Sleep(time.Duration(rng.IntN(200)) * time.Microsecond)
				}
			}
		}()
	}
	if !core.AwaitDone(core.Go(wg.Wait), 20000) {
		r.problem("answer", "caller-blocked", "callers did not finish:\n%s", core.DumpAll())
		return r
	}
	// quiescence: every started work has returned and no per-key state remains
	if !core.WaitUntil(10000, func() bool {
		for k := range r.active {
			if r.active[k].Load() != 0 {
				return false
			}
		}
		return r.e.VerifWorkLen() == 0
	}) {
		r.problem("answer", "state-left", "per-key state remains after quiescence: %d keys in the work map", r.e.VerifWorkLen())
	}
	return r
}

// checkAnswers runs the offline C10 checks.
func (r *exRun) checkAnswers() {
	r.mu.Lock()
	execs := append([]*exExec(nil), r.execs...)
	calls := append([]*exCall(nil), r.calls...)
	r.mu.Unlock()
	byRes := map[*exRes]*exExec{}
	for _, e := range execs {
		byRes[e.res] = e
	}
	answeredBy := map[int][]*exCall{}
	for _, cl := range calls {
		if cl.start {
			continue
		}
		if cl.outcomes != 1 || cl.nilOut {
			r.problem("answer", "outcome-count", "call %d (%s, work %s) received %d outcomes (nil outcome: %v), want exactly 1", cl.id, cl.style, cl.work, cl.outcomes, cl.nilOut)
			continue
		}
		res, _ := cl.res.(*exRes)
		if res == nil {
			// legal only as the library's own "resolve not called" outcome, or the rate limiter's context error once
			// that context was cancelled
			if cl.err == context.Canceled && r.rlCancelled.Load() {
				continue
			}
			if cl.err == nil || cl.res != nil {
				// (a nil result with some error: the library's own resolve-not-called outcome; its wording is not asserted)
				r.problem("answer", "foreign-outcome", "call %d received (%v, %v), which no execution produced", cl.id, cl.res, cl.err)
			}
			continue
		}
		e := byRes[res]
		if e == nil {
			r.problem("answer", "foreign-outcome", "call %d received a result no execution produced (%+v)", cl.id, res)
			continue
		}
		if e.key != cl.key {
			r.problem("answer", "wrong-key", "call %d (key %d) was answered by execution %d of key %d", cl.id, cl.key, e.id, e.key)
		}
		if e.start < cl.callStamp {
			r.problem("answer", "stale-result", "call %d (made at stamp %d) was answered by execution %d, which began earlier (stamp %d)", cl.id, cl.callStamp, e.id, e.start)
		}
		if cl.err != e.err {
			r.problem("answer", "error-mismatch", "call %d got error %v but execution %d returned %v", cl.id, cl.err, e.id, e.err)
		}
		answeredBy[e.id] = append(answeredBy[e.id], cl)
	}
	for _, e := range execs {
		sup := calls[e.supplier]
		if sup.key != e.key {
			r.problem("answer", "supplier-key", "execution %d of key %d ran a function supplied under key %d", e.id, e.key, sup.key)
		}
		if sup.callStamp > e.start {
			r.problem("answer", "supplier-late", "execution %d (start stamp %d) ran a function whose call was made later (stamp %d)", e.id, e.start, sup.callStamp)
		}
		// the supplier itself (when it has an outcome and its work resolves) is answered by this execution
		if !sup.start && sup.outcomes == 1 && (sup.work == "value" || sup.work == "early" || sup.work == "twice" || sup.work == "ratelimit") {
			if res, _ := sup.res.(*exRes); res != e.res && !(sup.res == nil && sup.err == context.Canceled && r.rlCancelled.Load()) {
				r.problem("answer", "supplier-not-answered", "call %d supplied the function of execution %d but was answered by something else", sup.id, e.id)
			}
		}
		// non-resolving work yields the resolve-not-called error to everyone coalesced (checked above as nil result)
	}
	for _, cl := range calls {
		if cl.work == "never" && !cl.start && cl.runs.Load() == 1 {
			if cl.res != nil || cl.err == nil {
				r.problem("answer", "resolve-not-called", "call %d supplied a work function that returned without resolving, and got (%v, %v)", cl.id, cl.res, cl.err)
			}
		}
	}
	// every Start/StartAfter is followed by an execution of its key that begins after it
	lastStart := map[int]int64{}
	for _, e := range execs {
		if e.start > lastStart[e.key] {
			lastStart[e.key] = e.start
		}
	}
	for k := range r.workStart {
		if st := r.workStart[k].Load(); st > lastStart[k] {
			lastStart[k] = st
		}
	}
	for _, cl := range calls {
		if cl.start && lastStart[cl.key] < cl.callStamp {
			r.problem("answer", "start-lost", "start-style call %d (key %d, stamp %d) was never followed by an execution (last one began at stamp %d)", cl.id, cl.key, cl.callStamp, lastStart[cl.key])
		}
	}
	if len(execs) > len(calls) {
		r.problem("answer", "too-many-executions", "%d executions for %d calls", len(execs), len(calls))
	}
}

func (r *exRun) report(c *core.Ctx, cats ...string) {
	want := map[string]bool{}
	for _, k := range cats {
		want[k] = true
	}
	r.mu.Lock()
	defer r.mu.Unlock()
	for _, a := range r.probs {
		if want[a.Cat] {
			msg := a.Msg
			if i := strings.Index(msg, "\ngoroutine "); i >= 0 {
				c.SetDump(msg[i:])
				msg = msg[:i]
			}
			c.Violate(a.Key, "%s", msg)
		}
	}
}

func (r *exRun) summary() map[string]any {
	styles := map[string]int{}
	coalesced := 0
	for _, cl := range r.calls {
		styles[cl.style+"/"+cl.work]++
		if cl.runs.Load() == 0 {
			coalesced++
		}
	}
	return map[string]any{"keys": r.keys, "calls": len(r.calls), "executions": len(r.execs), "calls_whose_function_never_ran": coalesced, "styles": styles, "rejected_invalid_calls": r.rejected.Load()}
}
