#!/usr/bin/env python3
"""Regenerates /verif/MANIFEST.json from the table below (run after adding a property check)."""
import json, os, subprocess
V = os.path.dirname(os.path.dirname(os.path.abspath(__file__)))
props = [json.loads(l) for l in open(os.path.join(V, 'properties.jsonl'))]
built = subprocess.run([os.path.join(V, 'tools', 'list_built.sh')], capture_output=True, text=True).stdout.split()

TECH = {
 'C01': 'order-chain oracle over unique-id histories + porcupine linearizability (nondeterministic cleaner model), hook-perturbed schedules',
 'C02': 'per-consumer sequential model over recorded positions, porcupine on shared consumers, fault-injecting Consumer decorator for Range, bounded-exhaustive op sequences',
 'C03': 'reference cleaner (exhaustive small family) + online invariant at the cleaner extension point and at VerifSnapshot + sticky-error monitor',
 'C04': 'bounded-progress monitor (heartbeats) on Size at quiescence, directed lost-wake-up windows via hooks',
 'C05': 'directed event placement around waitcond.park via hook gates + bounded-progress and position-model oracle',
 'C06': 'receipt-table / order-chain oracle over unique message ids with sentinel subscriber',
 'C07': 'bounded-progress + panic monitor under directed unsubscribe windows (hook gates), final accounting',
 'C08': 'closed-scenario conservation oracle + sequential registration-count reference on boundary deltas',
 'C09': 'online per-key active-execution counter, gate-based independence probe',
 'C10': 'offline exactly-once / started-after-call checker over stamped call and execution records',
 'C11': 'Go race detector over contract-respecting concurrent programs per type (harness sync stripped), reports de-duplicated by function pair',
 'C12': 'goroutine-dump leak filter + per-handle close semantics monitor over generated programs',
 'C13': 'porcupine linearizability vs sequential Channel model + conservation + Close-vs-Get micro-trials',
 'C14': 'online running/max counters, exactly-once result ids, bounded-progress, VerifState at quiescence',
 'C15': 'receipt table per publish vs independent eligibility reference (Go assignability), permuted readiness/cancel orders',
 'C16': 'step-machine reference over cancellation orders (enumerated n<=3) + simultaneous-cancel stress with hook gate',
 'C17': 'offline interval/order checker over stamped Do/done/stop/exit events, directed last-done-vs-Do races',
 'C18': 'lock-step reference loop on scripted outcomes with observed delays (VerifRetryObserve), cancellation at every point',
 'C19': 'differential testing of generated signatures/arguments/targets against an independent well-typedness reference (random + bounded-exhaustive)',
 'C20': 'count/order/close monitor with bounded-progress and leak filter, cancellation raced against ticks via hooks',
}
checks = []
for p in props:
    pid = p['id']
    if pid not in built:
        continue
    checks.append({
        'property_id': pid,
        'quick_cmd': './check %s quick' % pid,
        'thorough_cmd': './check %s thorough' % pid,
        'evidence_file': '/verif/evidence/%s.json' % pid,
        'replay_cmd_template': './check --replay {path}',
        'engine': 'bbverif',
        'level_claimed': {
            'category': 'exploration',
            'text': 'Runtime monitoring: the real library is executed under generated hostile workloads (seeded, hook-perturbed schedules, directed windows) while a deterministic oracle checks every recorded execution; holds on the executions explored (counts in the evidence file), not a proof over all schedules/inputs.',
            'design_ref': 'DESIGN.md §7 ' + pid,
        },
        'level_note': 'Trusted: the harness oracles/reference models (DESIGN.md appendix A), the Go runtime and race detector, the verif-tagged hooks being behaviour-preserving (add-only one-line calls). Schedules are sampled, liveness is restated as generous heartbeat bounds.',
        'technique': TECH[pid],
    })
na = [{'property_id': p['id'], 'reason': 'check not yet built in this session (runtime monitor designed in DESIGN.md §7 %s); not claimed until it exists' % p['id']} for p in props if p['id'] not in built]
hooks_commits = subprocess.run(['git', '-C', '/repo', 'log', '--format=%H', '--grep=^verif:'], capture_output=True, text=True).stdout.split()
m = {
    'version': 1,
    'setup_cmd': './check --build',
    'hooks': {
        'guard': 'verif',
        'enable': 'go build -tags verif (harness module /verif/harness with replace github.com/joeycumines/go-bigbuff => /repo); hooks: verif_on.go + one-line verifHook("site") calls',
        'baseline_off_cmd': '/verif/tools/baseline.sh',
        'source_commits': hooks_commits,
        'add_only': True,
    },
    'engines': [{
        'name': 'bbverif',
        'path': '/verif/harness',
        'serves_properties': [c['property_id'] for c in checks],
        'kind_free_text': 'Go harness: parent spawns child processes per scenario batch (GOMAXPROCS rotated, timeout -s QUIT), children drive the real library under seeded hook perturbation and run oracles (order chain, conservation, porcupine linearizability, reference models, goroutine-dump leak filter, race detector for C11)',
    }],
    'checks': checks,
    'notes': 'Entry point ./check <id> <quick|thorough>; VERIF_SEED selects the PRNG seed; exit 0 held / 1 VIOLATION / 2 harness error or observed nothing. KNOWN_FINDINGS.txt lists recorded findings and fixed defects.',
    'not_applicable': na,
}
json.dump(m, open(os.path.join(V, 'MANIFEST.json'), 'w'), indent=1)
print('checks:', [c['property_id'] for c in checks], 'not claimed:', [n['property_id'] for n in na])
