package props

import (
	"context"
	"fmt"
	"sync/atomic"
	"time"

	bigbuff "github.com/joeycumines/go-bigbuff"

	"verif/core"
)

// C04 — Buffer reclamation: fully consumed prefixes are freed without further activity.

func init() {
	core.Register(&core.Property{
		ID: "C04",
		Rule: "quiescence: K in 1..5 consumers read and commit (some lag, some close) over P puts with cooldown in {0,200us,2ms,10ms}; the final commit/close is placed before, inside or after a cooldown window (random sleeps relative to the cooldown, seeded delays at waitcond.park / buffer.cleanup.timer); " +
			"after the last operation returned the monitor polls Size until it equals put - min(committed of open consumers) (bound 3 x cooldown + 3000 heartbeats); fixed: FixedBufferCleaner(max,target<=max) quiescent size <= max. " +
			"directed: the cleanup goroutine is held at waitcond.park (after it noted a change during the cooldown) until the cooldown timer has fired, for a final commit, a final close and a Put crossing max. " +
			"non-trivial = the final state change happened while a cooldown timer was pending, or the directed window was entered; distinct = distinct (parameters, placement, window) signatures",
		Assumptions: []string{
			"the cleaner is configured before the first operation",
			"'bounded delay' is checked against a generous heartbeat bound, not against cooldown + epsilon",
		},
		Families: []core.Family{
			{Name: "quiescence", N: core.TierN(240, 12000), Batch: 10, Run: c04Quiescence},
			{Name: "directed-lost-wakeup", N: core.TierN(60, 2400), Batch: 6, Run: c04Directed},
			{Name: "fixed-max", N: core.TierN(100, 4000), Batch: 10, Run: c04Fixed},
			{Name: "window-commit-with-blocked-getters", N: core.TierN(60, 2400), Batch: 6, Run: c04Getters},
			{Name: "fixed-trim-then-commit", N: core.TierN(100, 4000), Batch: 25, Run: c04TrimThenCommit},
			{Name: "sustained-traffic", N: core.TierN(24, 960), Batch: 6, Run: c04Sustained},
			{Name: "fixed-consumed-prefix", N: core.TierN(60, 2400), Batch: 10, Run: c04FixedPrefix},
			{Name: "commit-during-cleaner-evaluation", N: core.TierN(80, 3200), Batch: 10, Run: c04DuringCleaner},
			{Name: "configured-during-first-use", N: core.TierN(12, 480), Batch: 3, Run: c04FirstUse},
		},
	})
}

func c04Bound(cooldown time.Duration) int {
	return 3*int(cooldown/time.Millisecond) + 3000
}

// awaitReclaim polls until Size reaches want; on failure records a violation with the stranded-cleaner signature.
func awaitReclaim(c *core.Ctx, b *bigbuff.Buffer, want int, cooldown time.Duration, desc string) bool {
	var sz int
	ok := core.WaitUntil(c04Bound(cooldown), func() bool {
		sz = b.Size()
		return sz <= want
	})
	if !ok {
		off, size, committed := b.VerifSnapshot()
		dump := core.DumpAll()
		sig := "cleanup goroutine state unknown"
		if g := core.StackWith(dump, "(*Buffer).cleanup", "sync.(*Cond).Wait"); g != "" {
			sig = "the cleanup goroutine is parked in cond.Wait"
			if core.StackWith(dump, "(*Buffer).cleanup.func1.1") == "" {
				sig += " and no cooldown timer goroutine is alive"
			}
		}
		c.Violate("not-reclaimed", "quiescent buffer still holds %d values, want %d (offset=%d size=%d committed=%v); %s; %s", sz, want, off, size, committed, sig, desc)
		c.SetDump(dump)
		return false
	}
	if sz < want {
		c.Violate("over-reclaimed", "buffer holds %d values but %d are not yet committed by every open consumer; %s", sz, want, desc)
		return false
	}
	return true
}

func c04Quiescence(c *core.Ctx) {
	cooldown := core.Pick(c.Rng, 0, 200*time.Microsecond, 2*time.Millisecond, 10*time.Millisecond)
	b := newBuffer(cleanerSpec{}, cooldown, nil)
	defer b.Close()
	p := c.NewPerturb(core.PerturbOpts{P: core.Pick(c.Rng, 0, 0.05, 0.2), Hot: map[string]float64{
		core.Pick(c.Rng, "waitcond.park", "buffer.cleanup.timer", "buffer.cleanup.shifted"): core.Pick(c.Rng, 0.3, 0.7, 1.0)},
		HotSleep: core.Pick(c.Rng, 100*time.Microsecond, time.Millisecond, 3*time.Millisecond)})
	defer p.Stop()
	k := 1 + c.Rng.IntN(5)
	conss := make([]bigbuff.Consumer, k)
	committed := make([]int, k)
	open := make([]bool, k)
	for i := range conss {
		conss[i], _ = b.NewConsumer()
		open[i] = true
	}
	defer func() {
		for _, cons := range conss {
			cons.Rollback()
		}
	}()
	total := 0
	put := func(n int) {
		vals := make([]interface{}, n)
		for i := range vals {
			vals[i] = total
			total++
		}
		b.Put(context.Background(), vals...)
	}
	sleepRel := func() {
		// place the next operation before / inside / after a cooldown window
		switch c.Rng.IntN(4) {
		case 0:
		case 1:
			time.Sleep(cooldown / 4)
		case 2:
			time.Sleep(cooldown * 3 / 4)
		case 3:
			time.Sleep(cooldown + cooldown/2 + 50*time.Microsecond)
		}
	}
	advance := func(i, n int) { // consumer i reads and commits n more values
		for j := 0; j < n; j++ {
			if _, err := conss[i].Get(context.Background()); err != nil {
				c.Violate("get-error", "Get failed: %v", err)
				return
			}
		}
		if n > 0 {
			if err := conss[i].Commit(); err != nil {
				c.Violate("commit-error", "Commit failed: %v", err)
			}
			committed[i] += n
		}
	}
	rounds := 1 + c.Rng.IntN(4)
	var trace []string
	for r := 0; r < rounds; r++ {
		n := 1 + c.Rng.IntN(6)
		put(n)
		trace = append(trace, fmt.Sprintf("put%d", n))
		sleepRel()
		for i := range conss {
			if !open[i] {
				continue
			}
			avail := total - committed[i]
			n := avail
			if c.Rng.IntN(3) == 0 {
				n = c.Rng.IntN(avail + 1)
			}
			advance(i, n)
			trace = append(trace, fmt.Sprintf("c%d+%d", i, n))
			if c.Rng.IntN(2) == 0 {
				sleepRel()
			}
		}
		// maybe close a consumer (never the last open one: at least one consumer stays open)
		nopen := 0
		for _, o := range open {
			if o {
				nopen++
			}
		}
		if nopen > 1 && c.Rng.IntN(3) == 0 {
			// close the slowest
			slow := -1
			for i := range conss {
				if open[i] && (slow < 0 || committed[i] < committed[slow]) {
					slow = i
				}
			}
			sleepRel()
			conss[slow].Close()
			open[slow] = false
			trace = append(trace, fmt.Sprintf("close%d", slow))
		}
	}
	// quiescent: expected size
	min := -1
	for i := range conss {
		if open[i] && (min < 0 || committed[i] < min) {
			min = committed[i]
		}
	}
	desc := fmt.Sprintf("cooldown=%s consumers=%d trace=%v", cooldown, k, trace)
	awaitReclaim(c, b, total-min, cooldown, desc)
	c.Op("put", rounds)
	c.Op("commit_or_close", len(trace)-rounds)
	c.Count("timer_fires", int(p.Hits("buffer.cleanup.timer")))
	if p.Hits("buffer.cleanup.timer") > 0 || cooldown == 0 {
		c.Nontrivial()
	}
	c.Param("cooldown", cooldown.String())
	c.Sig(cooldown, trace)
	if c.Index < 2 {
		c.SetHistory(desc)
	}
}

// c04Directed opens the lost-wake-up window: the final state change arrives during the cooldown, the cleanup
// goroutine notes it and is then held at waitcond.park (before cond.Wait) until the cooldown timer has fired.
func c04Directed(c *core.Ctx) {
	cooldown := core.Pick(c.Rng, 5*time.Millisecond, 10*time.Millisecond, 20*time.Millisecond)
	kind := core.Pick(c.Rng, "final-commit", "final-close", "put-crossing-max")
	cs := cleanerSpec{}
	if kind == "put-crossing-max" {
		cs = cleanerSpec{Fixed: true, Max: 4, Target: c.Rng.IntN(3)}
	}
	b := newBuffer(cs, cooldown, nil)
	defer b.Close()
	p := c.NewPerturb(core.PerturbOpts{})
	defer p.Stop()
	gate := core.NewGate()
	var armed atomic.Bool
	var timerFired atomic.Int64
	p.On("waitcond.park", func(int64) {
		if armed.Load() && core.CallerHas("(*Buffer).cleanup") {
			gate.Enter(5000)
		}
	})
	p.On("buffer.cleanup.timer", func(int64) { timerFired.Add(1) })

	c1, _ := b.NewConsumer()
	c2, _ := b.NewConsumer()
	defer c1.Rollback()
	defer c2.Rollback()
	vals := []interface{}{0, 1, 2}
	// let any timer started by the consumers' creation expire, so the Put below starts a fresh cooldown
	time.Sleep(cooldown + cooldown/2)
	fired0 := timerFired.Load()
	parks0 := p.Hits("waitcond.park")
	b.Put(context.Background(), vals...)
	want := 0
	read := func(cons bigbuff.Consumer, n int) {
		for i := 0; i < n; i++ {
			cons.Get(context.Background())
		}
	}
	// wait for the cleanup pass triggered by the Put (it starts a cooldown timer, or notes the change if one is pending)
	core.WaitUntil(2000, func() bool { return p.Hits("waitcond.park") > parks0 })
	var shifted0 int64
	arm := func() { shifted0 = p.Hits("buffer.cleanup.shifted"); armed.Store(true) }
	switch kind {
	case "final-commit":
		read(c1, 3)
		read(c2, 3)
		c1.Commit()
		arm()
		c2.Commit() // the final change: noted during the cooldown
	case "final-close":
		read(c1, 3)
		c1.Commit()
		arm()
		c2.Close() // closing the slowest consumer releases its hold
	case "put-crossing-max":
		read(c1, 3)
		read(c2, 3)
		c1.Commit()
		c2.Commit()
		arm()
		b.Put(context.Background(), 3, 4, 5) // size 6 > max 4 (nothing reclaimed yet: cooldown pending)
		want = 4
	}
	inWindow := gate.WaitArrived(3000) && timerFired.Load() == fired0 && p.Hits("buffer.cleanup.shifted") == shifted0
	if inWindow {
		// hold the cleanup goroutine before cond.Wait until the cooldown timer has fired (+ a little)
		core.WaitUntil(5000, func() bool { return timerFired.Load() > fired0 })
		time.Sleep(time.Millisecond)
		c.R.WinHit++
		c.Nontrivial()
	} else {
		c.R.WinMissed++
	}
	armed.Store(false)
	gate.Disarm()
	desc := fmt.Sprintf("kind=%s cooldown=%s window_entered=%v", kind, cooldown, inWindow)
	if kind == "put-crossing-max" {
		var sz int
		if !core.WaitUntil(c04Bound(cooldown), func() bool { sz = b.Size(); return sz <= want }) {
			c.Violate("fixed-not-trimmed", "quiescent size %d > max %d under %s; %s", sz, cs.Max, cs, desc)
			c.SetDump(core.DumpAll())
		}
	} else {
		awaitReclaim(c, b, want, cooldown, desc)
	}
	if !inWindow {
		c.Inconclusive("directed window missed (%s)", kind)
	}
	c.Op("final_change", 1)
	c.Param("kind", kind)
	c.Sig(kind, cooldown, inWindow)
	if c.Index < 2 {
		c.SetHistory(desc)
	}
}

func c04Fixed(c *core.Ctx) {
	max := 1 + c.Rng.IntN(8)
	// target <= max, including negative targets (the forced trim then asks for more than the buffer holds, which a
	// cleaner may do: the shift is applied as far as possible)
	cs := cleanerSpec{Fixed: true, Max: max, Target: c.Rng.IntN(max+4) - 3}
	cooldown := core.Pick(c.Rng, 0, 200*time.Microsecond, 2*time.Millisecond)
	b := newBuffer(cs, cooldown, nil)
	defer b.Close()
	p := c.RandomPerturb([]string{"waitcond.park", "buffer.cleanup.timer"})
	defer p.Stop()
	k := c.Rng.IntN(3)
	var conss []bigbuff.Consumer
	for i := 0; i < k; i++ {
		cons, _ := b.NewConsumer()
		conss = append(conss, cons)
	}
	defer func() {
		for _, cons := range conss {
			cons.Rollback()
		}
	}()
	total := 0
	rounds := 1 + c.Rng.IntN(6)
	for r := 0; r < rounds; r++ {
		n := 1 + c.Rng.IntN(5)
		vals := make([]interface{}, n)
		for i := range vals {
			vals[i] = total
			total++
		}
		b.Put(context.Background(), vals...)
		if c.Rng.IntN(2) == 0 {
			time.Sleep(time.Duration(c.Rng.IntN(int(cooldown)+1)) * 2)
		}
		for _, cons := range conss {
			if c.Rng.IntN(2) == 0 {
				ctx, cancel := context.WithTimeout(context.Background(), 200*time.Microsecond)
				if _, err := cons.Get(ctx); err == nil && c.Rng.IntN(2) == 0 {
					cons.Commit()
				}
				cancel()
			}
		}
	}
	var sz int
	if !core.WaitUntil(c04Bound(cooldown), func() bool { sz = b.Size(); return sz <= max }) {
		c.Violate("fixed-not-trimmed", "quiescent size %d > max %d under %s (cooldown %s, %d values put)", sz, max, cs, cooldown, total)
		c.SetDump(core.DumpAll())
	}
	c.Op("put", rounds)
	if total > max {
		c.Nontrivial()
	}
	c.Param("cleaner", cs.String())
	c.Sig(cs.String(), cooldown, total, k)
}

// c04FixedPrefix: under FixedBufferCleaner a commit and a Put crossing max both land inside one cooldown window, so
// that the pass at the end of the window performs the forced trim; whatever prefix every open consumer has committed
// past must still be gone at quiescence (first sentence of the statement, which is not limited to the default cleaner).
func c04FixedPrefix(c *core.Ctx) {
	cooldown := core.Pick(c.Rng, 0, 3*time.Millisecond, 8*time.Millisecond)
	max := 3 + c.Rng.IntN(4)
	cs := cleanerSpec{Fixed: true, Max: max, Target: 1 + c.Rng.IntN(max)}
	b := newBuffer(cs, cooldown, nil)
	defer b.Close()
	p := c.NewPerturb(core.PerturbOpts{})
	defer p.Stop()
	cons, _ := b.NewConsumer()
	defer cons.Rollback()
	time.Sleep(cooldown * 2)
	n1 := max
	vals := make([]interface{}, n1)
	for i := range vals {
		vals[i] = i
	}
	fired0 := p.Hits("buffer.cleanup.timer")
	b.Put(context.Background(), vals...) // starts a cooldown window (size == max: no trim)
	k := 1 + c.Rng.IntN(n1)
	for i := 0; i < k; i++ {
		cons.Get(context.Background())
	}
	cons.Commit() // inside the window: noted, not yet applied
	n2 := 1 + c.Rng.IntN(3)
	vals = vals[:0]
	for i := 0; i < n2; i++ {
		vals = append(vals, n1+i)
	}
	b.Put(context.Background(), vals...) // crosses max inside the same window
	inWindow := cooldown > 0 && p.Hits("buffer.cleanup.timer") == fired0
	total := n1 + n2
	desc := fmt.Sprintf("%s cooldown=%s put=%d then %d, committed=%d, both inside one cooldown window=%v", cs, cooldown, n1, n2, k, inWindow)
	var off, sz int
	ok := core.WaitUntil(c04Bound(cooldown), func() bool {
		off, sz, _ = b.VerifSnapshot()
		return off >= k && sz <= max
	})
	if !ok {
		if sz > max {
			c.Violate("fixed-not-trimmed", "quiescent size %d > max %d; %s", sz, max, desc)
		} else {
			c.Violate("fixed-consumed-prefix-retained", "quiescent buffer starts at value #%d although the only open consumer has committed %d values (size %d of %d put); %s", off, k, sz, total, desc)
		}
		c.SetDump(core.DumpAll())
	}
	if inWindow {
		c.Nontrivial()
		c.R.WinHit++
	} else if cooldown > 0 {
		c.R.WinMissed++
	}
	if cooldown == 0 {
		c.Nontrivial()
	}
	c.Op("final_change", 1)
	c.Sig(cs.String(), cooldown, k, n2, inWindow)
	if c.Index < 1 {
		c.SetHistory(desc)
	}
}

// c04Getters: other consumers that are caught up sit blocked in Get (they share the buffer's cond with the cleanup
// goroutine) while the slowest consumer's final commit lands inside a cooldown window: the re-check at the end of the
// window must reach the cleanup goroutine whatever the order in which the waiters re-queued.
func c04Getters(c *core.Ctx) {
	cooldown := core.Pick(c.Rng, 5*time.Millisecond, 10*time.Millisecond, 20*time.Millisecond)
	b := newBuffer(cleanerSpec{}, cooldown, nil)
	defer b.Close()
	p := c.NewPerturb(core.PerturbOpts{P: core.Pick(c.Rng, 0, 0.2, 0.5), MaxSleep: 100 * time.Microsecond})
	defer p.Stop()
	g := 1 + c.Rng.IntN(4)
	stop, stopGetters := context.WithCancel(context.Background())
	defer stopGetters()
	caught := make([]atomic.Int64, g)
	done := make([]<-chan struct{}, g)
	for i := 0; i < g; i++ {
		cons, _ := b.NewConsumer()
		i := i
		done[i] = core.Go(func() {
			defer cons.Close()
			for {
				if _, err := cons.Get(stop); err != nil {
					return
				}
				cons.Commit()
				caught[i].Add(1)
			}
		})
	}
	slow, _ := b.NewConsumer()
	defer slow.Rollback()
	n := 2 + c.Rng.IntN(3)
	for i := 0; i < n; i++ {
		b.Put(context.Background(), i)
	}
	if !core.WaitUntil(5000, func() bool {
		for i := range caught {
			if caught[i].Load() != int64(n) {
				return false
			}
		}
		return true
	}) {
		c.Inconclusive("getters did not catch up")
		return
	}
	time.Sleep(cooldown*2 + time.Millisecond) // quiescent: no cooldown timer pending, getters blocked in Get
	fired0 := p.Hits("buffer.cleanup.timer")
	// first commit: applied at once, opens a cooldown window; the remaining commits land inside it
	slow.Get(context.Background())
	slow.Commit()
	time.Sleep(time.Duration(c.Rng.IntN(int(cooldown / 2))))
	for i := 1; i < n; i++ {
		slow.Get(context.Background())
	}
	slow.Commit() // the final change
	inWindow := p.Hits("buffer.cleanup.timer") == fired0
	desc := fmt.Sprintf("cooldown=%s blocked_getters=%d values=%d final_commit_inside_window=%v", cooldown, g, n, inWindow)
	awaitReclaim(c, b, 0, cooldown, desc)
	stopGetters()
	for i := range done {
		core.AwaitDone(done[i], 5000)
	}
	if inWindow {
		c.Nontrivial()
		c.R.WinHit++
	} else {
		c.R.WinMissed++
	}
	c.Op("final_change", 1)
	c.Sig("getters", cooldown, g, n, inWindow)
	if c.Index < 1 {
		c.SetHistory(desc)
	}
}

// c04TrimThenCommit: under FixedBufferCleaner consumers hold uncommitted reads across a forced trim (so the buffer's
// offset overtakes their committed position), then every consumer that can still read reads everything and commits
// (the others close): with no further activity the buffer must drain to the slowest open consumer's backlog (0).
func c04TrimThenCommit(c *core.Ctx) {
	cooldown := core.Pick(c.Rng, 0, 0, 500*time.Microsecond, 3*time.Millisecond)
	max := 2 + c.Rng.IntN(5)
	cs := cleanerSpec{Fixed: true, Max: max, Target: 1 + c.Rng.IntN(max)}
	b := newBuffer(cs, cooldown, nil)
	defer b.Close()
	p := c.NewPerturb(core.PerturbOpts{P: core.Pick(c.Rng, 0, 0.1)})
	defer p.Stop()
	k := 1 + c.Rng.IntN(3)
	conss := make([]bigbuff.Consumer, k)
	for i := range conss {
		conss[i], _ = b.NewConsumer()
	}
	defer func() {
		for _, cons := range conss {
			cons.Rollback()
		}
	}()
	total := 0
	put := func(n int) {
		vals := make([]interface{}, n)
		for i := range vals {
			vals[i] = total
			total++
		}
		b.Put(context.Background(), vals...)
	}
	put(max)
	reads := make([]int, k)
	for i, cons := range conss {
		reads[i] = c.Rng.IntN(max + 1)
		for j := 0; j < reads[i]; j++ {
			cons.Get(context.Background())
		}
		if c.Rng.IntN(4) == 0 && reads[i] > 0 {
			cons.Commit()
		}
	}
	put(1 + c.Rng.IntN(3)) // crosses max: forced trim while reads are uncommitted
	if c.Rng.IntN(2) == 0 {
		time.Sleep(cooldown + 200*time.Microsecond)
	}
	open := 0
	for i, cons := range conss {
		lagging := false
		for {
			ctx, cancel := context.WithTimeout(context.Background(), 2*time.Millisecond)
			_, err := cons.Get(ctx)
			cancel()
			if err != nil {
				if _, past := errClass(err); past {
					lagging = true
				}
				break
			}
		}
		if lagging {
			cons.Rollback()
			cons.Close()
			continue
		}
		if d, ok := b.Diff(cons); !ok || d != 0 {
			// could not read everything (should not happen): leave it out
			c.Inconclusive("consumer %d did not reach the end (Diff=%d)", i, d)
			return
		}
		cons.Commit() // may be "nothing to commit" if it had nothing pending
		open++
	}
	desc := fmt.Sprintf("%s cooldown=%s consumers=%d (still open: %d) reads-before-trim=%v put=%d", cs, cooldown, k, open, reads, total)
	if open == 0 {
		c.Op("final_change", 1)
		c.Sig("trimcommit-none-open", cs.String())
		return
	}
	awaitReclaim(c, b, 0, cooldown, desc)
	c.Op("final_change", 1)
	c.Nontrivial()
	c.Sig("trimcommit", cs.String(), cooldown, k, open, fmt.Sprint(reads))
	if c.Index < 1 {
		c.SetHistory(desc)
	}
}

// c04Sustained: consumers that keep up while traffic never pauses for a whole cooldown: the buffer must still be
// reclaimed while the traffic lasts (Size returns to the backlog of the slowest consumer instead of growing without
// bound). Restated conservatively: after a run lasting >= 300 heartbeats and >= 60 cooldowns, less than half of everything put is still retained.
func c04Sustained(c *core.Ctx) {
	// (cooldowns well above the granularity of time.Sleep, so that the gaps really are shorter than the cooldown)
	cooldown := core.Pick(c.Rng, 4*time.Millisecond, 6*time.Millisecond, 8*time.Millisecond)
	b := newBuffer(cleanerSpec{}, cooldown, nil)
	defer b.Close()
	p := c.NewPerturb(core.PerturbOpts{P: core.Pick(c.Rng, 0, 0.05)})
	defer p.Stop()
	k := 1 + c.Rng.IntN(3)
	conss := make([]bigbuff.Consumer, k)
	for i := range conss {
		conss[i], _ = b.NewConsumer()
	}
	defer func() {
		for _, cons := range conss {
			cons.Rollback()
		}
	}()
	gap := cooldown / time.Duration(3+c.Rng.IntN(3)) // every gap between operations is shorter than the cooldown
	start := core.Beats()
	total := 0
	for rounds := 0; rounds < 60*int(cooldown/gap) || core.Beats()-start < 300; rounds++ {
		b.Put(context.Background(), total)
		total++
		for _, cons := range conss {
			if _, err := cons.Get(context.Background()); err == nil {
				cons.Commit()
			}
		}
		time.Sleep(gap)
		if rounds > 20000 {
			break
		}
	}
	off, sz, _ := b.VerifSnapshot() // taken while the traffic is still warm (no quiet period has been granted)
	// every value was read and committed by every consumer within its round, so what is retained is what the cleaner
	// has not got to yet: about one or two cooldowns' worth of traffic; the run lasted at least 60 cooldowns, so
	// retaining more than half of everything means reclamation has (almost) stopped while the traffic lasts
	if total > 40 && sz*2 > total {
		c.Violate("not-reclaimed-under-traffic", "%d values were put, read and committed by all %d consumers over %d heartbeats (cooldown %s, gaps %s) and %d of them are still retained (offset %d)", total, k, core.Beats()-start, cooldown, gap, sz, off)
	}
	c.Op("put", total)
	c.Count("evicted_during_traffic", off)
	c.Nontrivial()
	c.Sig("sustained", cooldown, gap, k)
}

// c04DuringCleaner: the cleaner function itself is the window. A pass-through cleaner (DefaultCleaner or a fixed one
// underneath) holds one of its evaluations open; meanwhile the last commit (or the close) of the slowest consumer is
// attempted from another goroutine; then the evaluation is let go and nothing else ever happens. Whether the commit
// had to wait for the evaluation or was admitted during it, the prefix it released must be gone within the bound.
func c04DuringCleaner(c *core.Ctx) {
	cooldown := core.Pick(c.Rng, 0, 0, 300*time.Microsecond, 2*time.Millisecond)
	action := core.Pick(c.Rng, "commit", "commit", "close")
	nCons := 1 + c.Rng.IntN(3)
	if action == "close" && nCons == 1 {
		nCons = 2 // the statement speaks of buffers with at least one OPEN consumer: somebody must stay
	}
	n := 2 + c.Rng.IntN(6)
	gate := core.NewGate()
	var armed atomic.Bool
	var evals atomic.Int64
	b := newBuffer(cleanerSpec{}, cooldown, func(inner bigbuff.Cleaner) bigbuff.Cleaner {
		return func(size int, offsets []int) int {
			evals.Add(1)
			if armed.CompareAndSwap(true, false) {
				gate.Enter(1000) // one evaluation is held open (falls through after the bound)
			}
			return inner(size, append([]int(nil), offsets...))
		}
	})
	defer b.Close()
	var conss []bigbuff.Consumer
	for i := 0; i < nCons; i++ {
		cons, err := b.NewConsumer()
		if err != nil {
			c.Violate("newconsumer-error", "%v", err)
			return
		}
		conss = append(conss, cons)
	}
	defer func() {
		for _, cons := range conss {
			cons.Rollback()
		}
	}()
	vals := make([]interface{}, n)
	for i := range vals {
		vals[i] = i
	}
	b.Put(context.Background(), vals...)
	// every consumer reads everything; all but the first commit right away
	for i, cons := range conss {
		for j := 0; j < n; j++ {
			if _, err := cons.Get(context.Background()); err != nil {
				c.Violate("get-error", "%v", err)
				return
			}
		}
		if i > 0 {
			cons.Commit()
		}
	}
	time.Sleep(cooldown*2 + 200*time.Microsecond) // let the passes triggered so far finish (nothing can be reclaimed yet)
	if sz := b.Size(); sz != n {
		c.Violate("over-reclaimed", "buffer holds %d values but consumer 0 has committed nothing of %d", sz, n)
		return
	}
	// arm the gate and wake the cleanup goroutine with an operation that makes nothing reclaimable: one more value,
	// which nobody reads (it stays in the buffer to the end)
	armed.Store(true)
	b.Put(context.Background(), n)
	window := gate.WaitArrived(3000)
	acted := core.Go(func() {
		if action == "commit" {
			conss[0].Commit()
		} else {
			conss[0].Rollback()
			conss[0].Close()
		}
	})
	time.Sleep(time.Duration(100+c.Rng.IntN(300)) * time.Microsecond)
	duringEval := false
	select {
	case <-acted:
		duringEval = true // the commit was admitted while the cleaner was being evaluated
	default:
	}
	gate.Release()
	desc := fmt.Sprintf("%d consumers, %d values, cooldown %s, last %s of the slowest consumer attempted while a cleaner evaluation was held open (admitted during it: %v, window entered: %v)", nCons, n, cooldown, action, duringEval, window)
	if !core.AwaitDone(acted, 10000) {
		c.Violate("commit-blocked", "the %s did not return; %s", action, desc)
		c.SetDump(core.DumpAll())
		return
	}
	awaitReclaim(c, b, 1, cooldown, desc)
	c.Op("commit", nCons)
	c.Op("cleaner_evaluation", int(evals.Load()))
	if window {
		c.Nontrivial()
		c.R.WinHit++
	} else {
		c.R.WinMissed++
	}
	c.Sig("during-cleaner", nCons, cooldown, action, duringEval, window)
}

// c04FirstUse: SetCleanerConfig(FixedBufferCleaner) is the first call on a zero-value Buffer and races other first
// calls. It returned nil, so the configuration is in force: the quiescent size is at most max.
func c04FirstUse(c *core.Ctx) {
	n := 400
	if c.Thorough() {
		n = 1000
	}
	type made struct {
		b   *bigbuff.Buffer
		max int
	}
	var all []made
	for i := 0; i < n; i++ {
		b := new(bigbuff.Buffer)
		max := 1 + c.Rng.IntN(4)
		var serr error
		cfg := bigbuff.CleanerConfig{Cleaner: bigbuff.FixedBufferCleaner(max, c.Rng.IntN(max+1), nil), Cooldown: time.Duration(c.Rng.IntN(2)) * 200 * time.Microsecond}
		calls := []func(){
			func() { serr = b.SetCleanerConfig(cfg) },
			func() { b.Size() }, func() { b.Slice() }, func() { b.Size() },
		}
		calls = calls[:2+c.Rng.IntN(3)]
		c.Rng.Shuffle(len(calls), func(i, j int) { calls[i], calls[j] = calls[j], calls[i] })
		raceFirstCalls(b, calls...)
		if serr != nil {
			c.Violate("setcleanerconfig-error", "%v", serr)
			return
		}
		for j := 0; j < 10; j++ {
			b.Put(context.Background(), j)
		}
		all = append(all, made{b, max})
	}
	bad := 0
	for i, m := range all {
		var sz int
		if !core.WaitUntil(c04Bound(time.Millisecond), func() bool { sz = m.b.Size(); return sz <= m.max }) {
			bad++
			if bad <= 3 {
				c.Violate("fixed-not-trimmed", "buffer #%d: SetCleanerConfig(FixedBufferCleaner(max=%d,...)) returned nil while racing other first calls, 10 values were put, and the quiescent size is %d", i, m.max, sz)
			}
		}
		m.b.Close()
	}
	c.Op("first_use_race", n)
	c.Nontrivial()
	c.Sig("first-use-config", c.Index)
}
