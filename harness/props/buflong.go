package props

import (
	"context"
	"fmt"
	"math/rand/v2"
	"sort"
	"strings"
	"sync"
	"sync/atomic"
	"time"

	bigbuff "github.com/joeycumines/go-bigbuff"

	"verif/core"
)

func newRand(seed uint64) *rand.Rand { return rand.New(rand.NewPCG(seed, seed^0x9e3779b97f4a7c15)) }

// Long stress runs over one Buffer with one goroutine per consumer; every anomaly is recorded with a category
// and each property (C01/C02/C03) reports the categories its statement covers.

type anomaly struct {
	Cat string // order | txn | retention | progress
	Key string
	Msg string
}

type longOpts struct {
	producers int
	batches   int // per producer
	maxBatch  int
	consumers int // consumer client goroutines (each runs 1..3 consumer sessions)
	ref       bool
	cs        cleanerSpec
	cooldown  time.Duration
	observers int
	custom    string // "", "overask", "underask": custom cleaners exercising the clamp (C03)
}

type putRec struct {
	prod      int
	vals      []int
	call, ret int64
}

type consSession struct {
	cid              int
	client           int
	offBefore, offAt int // VerifSnapshot offsets before / after NewConsumer
	createCall       int64
	createRet        int64
	vals             []int // stream by relative position (a re-read value counted once)
	committedAtEnd   int
	pastErrAt        int // relative position at which the first "past" error occurred (-1 none)
	closedStamp      int64
	isRef            bool
}

type sliceObs struct {
	call, ret int64
	vals      []int
	size      int // from Size() right after (separate call) — not compared with vals
	off, sz   int // VerifSnapshot taken right after
}

type longHist struct {
	opts         longOpts
	puts         []putRec
	sessions     []*consSession
	slices       []sliceObs
	anomalies    []anomaly
	cleanerCalls int64
	shifts       int64
	totalVals    int
	mu           sync.Mutex
}

func (h *longHist) anomaly(cat, key, format string, args ...any) {
	h.mu.Lock()
	if len(h.anomalies) < 50 {
		h.anomalies = append(h.anomalies, anomaly{cat, key, fmt.Sprintf(format, args...)})
	}
	h.mu.Unlock()
}

// monitoredCleaner wraps the configured cleaner: the library calls it under its own write lock with a consistent
// (size, offsets); the wrapper compares the result with the reference.
func (h *longHist) monitoredCleaner(cs cleanerSpec, inner bigbuff.Cleaner) bigbuff.Cleaner {
	return func(size int, offsets []int) int {
		atomic.AddInt64(&h.cleanerCalls, 1)
		cp := append([]int(nil), offsets...)
		got := inner(size, offsets)
		want := cs.shift(size, cp)
		if got != want {
			h.anomaly("retention", "cleaner-result", "cleaner %s returned %d for size=%d offsets=%v, reference says %d", cs, got, size, cp, want)
		}
		if !cs.Fixed {
			// default cleaner: never ask to evict beyond the smallest non-negative committed offset
			for _, o := range cp {
				if o >= 0 && got > o {
					h.anomaly("retention", "evict-uncommitted", "default cleaner asked to evict %d values while a consumer has committed only %d (size=%d offsets=%v)", got, o, size, cp)
				}
			}
			if len(cp) == 0 && got != 0 {
				h.anomaly("retention", "evict-no-consumer", "default cleaner asked to evict %d values with no consumer", got)
			}
		}
		return got
	}
}

func runBufLong(c *core.Ctx, o longOpts) *longHist {
	h := &longHist{opts: o}
	wrap := func(inner bigbuff.Cleaner) bigbuff.Cleaner {
		m := h.monitoredCleaner(o.cs, inner)
		switch o.custom {
		case "overask": // asks for more than the buffer holds when everything is consumed: the clamp must hold
			return func(size int, offsets []int) int {
				r := m(size, offsets)
				if r > 0 && r == size {
					return r + 1 + size
				}
				return r
			}
		case "underask": // negative results must be ignored
			return func(size int, offsets []int) int {
				r := m(size, offsets)
				if r == 0 {
					return -3
				}
				return r
			}
		}
		return m
	}
	b := newBuffer(o.cs, o.cooldown, wrap)
	var putsReturned, putsCalled atomic.Int64

	// plan producers
	type plan struct{ batches [][]int }
	plans := make([]plan, o.producers)
	next := 0
	for p := range plans {
		for i := 0; i < o.batches; i++ {
			n := c.Rng.IntN(o.maxBatch + 1)
			if o.maxBatch > 0 && c.Rng.IntN(3) != 0 && n == 0 {
				n = 1
			}
			vs := make([]int, n)
			for j := range vs {
				next++
				vs[j] = p*1000000 + next
			}
			plans[p].batches = append(plans[p].batches, vs)
			h.totalVals += n
		}
	}
	stopCtx, stopAll := context.WithCancel(context.Background())
	defer stopAll()

	var wg sync.WaitGroup
	var sessMu sync.Mutex
	nextCid := 0
	addSession := func(s *consSession) {
		sessMu.Lock()
		s.cid = nextCid
		nextCid++
		h.sessions = append(h.sessions, s)
		sessMu.Unlock()
	}

	// reference consumer: created before the first Put, reads everything, commits at random points
	var refDone <-chan struct{}
	if o.ref {
		off0, _, _ := b.VerifSnapshot()
		s := &consSession{client: -1, isRef: true, offBefore: off0, pastErrAt: -1}
		s.createCall = core.Now()
		rc, err := b.NewConsumer()
		s.createRet = core.Now()
		if err != nil {
			h.anomaly("progress", "newconsumer-error", "NewConsumer failed: %v", err)
			return h
		}
		s.offAt, _, _ = b.VerifSnapshot()
		addSession(s)
		seed := c.Rng.Uint64()
		total := h.totalVals
		refDone = core.Go(func() {
			r := newRand(seed)
			pending := 0
			for len(s.vals) < total {
				v, err := rc.Get(stopCtx)
				if err != nil {
					if stopCtx.Err() == nil {
						_, past := errClass(err)
						if past {
							s.pastErrAt = len(s.vals)
						}
						h.anomaly("retention", "ref-get-error", "reference consumer (only ever reads and commits) got an error at position %d: %v", len(s.vals), err)
					}
					break
				}
				n, _ := v.(int)
				s.vals = append(s.vals, n)
				pending++
				if r.IntN(4) == 0 {
					if err := rc.Commit(); err != nil {
						h.anomaly("txn", "ref-commit-error", "Commit with %d pending returned %v", pending, err)
					}
					pending = 0
				}
			}
			if pending > 0 {
				_ = rc.Commit()
			}
			s.committedAtEnd = len(s.vals)
		})
		defer func() { _ = rc.Close() }()
	}

	// producers
	var prodWG sync.WaitGroup
	var putMu sync.Mutex
	for p := range plans {
		prodWG.Add(1)
		seed := c.Rng.Uint64()
		go func(p int) {
			defer prodWG.Done()
			r := newRand(seed)
			for _, vs := range plans[p].batches {
				args := make([]interface{}, len(vs))
				for i, v := range vs {
					args[i] = v
				}
				putsCalled.Add(int64(len(vs)))
				call := core.Now()
				err := b.Put(context.Background(), args...)
				poisonArgs(args) // the caller owns its slice again once Put returned
				ret := core.Now()
				putsReturned.Add(int64(len(vs)))
				if err != nil {
					h.anomaly("progress", "put-error", "Put on an open buffer failed: %v", err)
				}
				putMu.Lock()
				h.puts = append(h.puts, putRec{p, vs, call, ret})
				putMu.Unlock()
				switch r.IntN(6) {
				case 0:
					time.Sleep(time.Duration(r.IntN(200)) * time.Microsecond)
				case 1:
					runtimeGosched(r.IntN(5))
				}
			}
		}(p)
	}
	prodDone := core.Go(prodWG.Wait)

	// consumer clients
	for cl := 0; cl < o.consumers; cl++ {
		wg.Add(1)
		seed := c.Rng.Uint64()
		go func(cl int) {
			defer wg.Done()
			r := newRand(seed)
			sessions := 1 + r.IntN(3)
			for si := 0; si < sessions && stopCtx.Err() == nil; si++ {
				if r.IntN(2) == 0 {
					time.Sleep(time.Duration(r.IntN(500)) * time.Microsecond)
				}
				h.runSession(c, b, r, cl, stopCtx, addSession)
			}
		}(cl)
	}

	// observers: Slice / Size / VerifSnapshot
	for ob := 0; ob < o.observers; ob++ {
		wg.Add(1)
		seed := c.Rng.Uint64()
		go func() {
			defer wg.Done()
			r := newRand(seed)
			for stopCtx.Err() == nil {
				var so sliceObs
				pc0 := putsReturned.Load()
				so.call = core.Now()
				vs, ok := toInts(b.Slice())
				so.ret = core.Now()
				pc1 := putsCalled.Load()
				if !ok {
					h.anomaly("order", "slice-foreign-value", "Slice contains a value nobody put")
				}
				so.vals = vs
				off, sz, committed := b.VerifSnapshot()
				so.off, so.sz = off, sz
				// conservation (sound side): offset+size lies between values whose Put returned / was called
				if int64(off+sz) < pc0 {
					h.anomaly("retention", "conservation-low", "offset+size=%d below the %d values whose Put had returned", off+sz, pc0)
				}
				_ = pc1
				if !o.cs.Fixed && o.custom == "" {
					for _, cm := range committed {
						if cm < off {
							h.anomaly("retention", "evicted-uncommitted", "buffer offset %d is beyond an open consumer's committed position %d under the default cleaner", off, cm)
						}
					}
				}
				h.mu.Lock()
				if len(h.slices) < 400 {
					h.slices = append(h.slices, so)
				}
				h.mu.Unlock()
				time.Sleep(time.Duration(20+r.IntN(300)) * time.Microsecond)
			}
		}()
	}

	// termination: producers finish, reference drains, then stop everyone
	if !core.AwaitDone(prodDone, 30000) {
		h.anomaly("progress", "put-hang", "producers did not finish:\n%s", core.DumpAll())
		stopAll()
		return h
	}
	if refDone != nil {
		if !core.AwaitDone(refDone, 30000) {
			h.anomaly("progress", "ref-hang", "reference consumer did not drain the buffer (%d values put):\n%s", h.totalVals, core.DumpAll())
		}
	}
	time.Sleep(time.Duration(c.Rng.IntN(2000)) * time.Microsecond)
	stopAll()
	if !core.AwaitDone(core.Go(wg.Wait), 30000) {
		h.anomaly("progress", "client-hang", "consumer clients did not finish after their contexts were cancelled:\n%s", core.DumpAll())
		return h
	}
	// quiescent checks (no operation is in flight any more, but the cleaner may still be working off a cooldown:
	// the offset can only grow and the size only shrink, so every comparison brackets the value between two snapshots)
	off, sz, _ := b.VerifSnapshot()
	if off+sz != h.totalVals {
		h.anomaly("retention", "conservation-final", "at quiescence offset+size=%d but %d values were put", off+sz, h.totalVals)
	}
	n := b.Size()
	sc := core.Now()
	fin, _ := toInts(b.Slice())
	sr := core.Now()
	off2, sz2, _ := b.VerifSnapshot()
	if off2+sz2 != h.totalVals {
		h.anomaly("retention", "conservation-final", "at quiescence offset+size=%d but %d values were put", off2+sz2, h.totalVals)
	}
	if n > sz || n < sz2 {
		h.anomaly("retention", "size-mismatch", "Size()=%d but the buffer held %d before and %d after the call", n, sz, sz2)
	}
	if len(fin) > sz || len(fin) < sz2 {
		h.anomaly("retention", "slice-size-mismatch", "Slice() has %d values but the buffer held %d before and %d after the call", len(fin), sz, sz2)
	}
	h.slices = append(h.slices, sliceObs{call: sc, ret: sr, vals: fin, off: off2, sz: sz2})
	off = off2
	h.shifts = int64(off)
	_ = b.Close()
	return h
}

func runtimeGosched(n int) {
	for i := 0; i <= n; i++ {
		time.Sleep(0)
	}
}

// runSession creates a consumer and drives it with a position model.
func (h *longHist) runSession(c *core.Ctx, b *bigbuff.Buffer, r *rand.Rand, cl int, stopCtx context.Context, add func(*consSession)) {
	s := &consSession{client: cl, pastErrAt: -1}
	s.offBefore, _, _ = b.VerifSnapshot()
	s.createCall = core.Now()
	cons, err := b.NewConsumer()
	s.createRet = core.Now()
	if err != nil {
		h.anomaly("progress", "newconsumer-error", "NewConsumer failed: %v", err)
		return
	}
	s.offAt, _, _ = b.VerifSnapshot()
	add(s)
	pos, committed := 0, 0
	steps := 20 + r.IntN(300)
	dead := false
	for i := 0; i < steps && stopCtx.Err() == nil; i++ {
		switch x := r.IntN(100); {
		case x < 70:
			ctx := stopCtx
			var cancel context.CancelFunc
			timed := r.IntN(5) == 0
			if timed {
				ctx, cancel = context.WithTimeout(stopCtx, time.Duration(50+r.IntN(500))*time.Microsecond)
			}
			v, err := cons.Get(ctx)
			cancelled := ctx.Err() != nil
			if cancel != nil {
				cancel()
			}
			if err != nil {
				_, past := errClass(err)
				switch {
				case past || (!cancelled && (h.opts.cs.Fixed || h.opts.custom != "")):
					// fallen behind a forced trim (recognised by the message, or - under a non-default cleaner - by
					// any error that is not this Get's own cancellation)
					if s.pastErrAt < 0 {
						s.pastErrAt = pos
					}
					dead = true
				case cancelled:
				default:
					h.anomaly("retention", "get-error", "a consumer that only reads and commits got an error under the default cleaner: %v", err)
				}
				continue
			}
			if dead {
				h.anomaly("retention", "error-not-sticky", "consumer c%d got value %v at position %d after an earlier 'offset past' error at position %d", s.cid, v, pos, s.pastErrAt)
			}
			n, ok := v.(int)
			if !ok {
				h.anomaly("order", "foreign-value", "Get returned %v (%T), which nobody put", v, v)
				continue
			}
			if pos < len(s.vals) {
				if s.vals[pos] != n {
					h.anomaly("txn", "reread-differs", "consumer c%d position %d returned %d after a rollback but %d before", s.cid, pos, n, s.vals[pos])
				}
			} else {
				s.vals = append(s.vals, n)
			}
			pos++
		case x < 84:
			err := cons.Commit()
			if pos > committed {
				if err != nil {
					h.anomaly("txn", "commit-error", "Commit with %d pending reads returned %v", pos-committed, err)
				} else {
					committed = pos
				}
			} else if err == nil {
				h.anomaly("txn", "commit-nothing-ok", "Commit with nothing pending returned nil")
			}
		case x < 94:
			err := cons.Rollback()
			if pos > committed {
				if err != nil {
					h.anomaly("txn", "rollback-error", "Rollback with %d pending reads returned %v", pos-committed, err)
				} else {
					pos = committed
				}
			} else if err == nil {
				h.anomaly("txn", "rollback-nothing-ok", "Rollback with nothing pending returned nil")
			}
		default:
			d, ok := b.Diff(cons)
			if !ok {
				h.anomaly("retention", "diff-not-ok", "Diff of an open consumer returned ok=false")
			}
			_ = d
		}
	}
	// finish: commit or roll back what is pending, then close
	if pos > committed {
		if r.IntN(2) == 0 {
			if err := cons.Commit(); err != nil {
				h.anomaly("txn", "commit-error", "final Commit with %d pending returned %v", pos-committed, err)
			} else {
				committed = pos
			}
		} else {
			if err := cons.Rollback(); err != nil {
				h.anomaly("txn", "rollback-error", "final Rollback with %d pending returned %v", pos-committed, err)
			}
		}
	}
	s.committedAtEnd = committed
	cd := core.Go(func() { _ = cons.Close() })
	if !core.AwaitDone(cd, 10000) {
		h.anomaly("progress", "close-hang", "consumer Close did not return although nothing is uncommitted")
	}
	s.closedStamp = core.Now()
}

// ---------------------------------------------------------------------------
// Order-chain oracle (C01)

// chainIndex derives idx(value) from the reference consumer's stream, or from the single producer's program order.
func (h *longHist) chainIndex() (idx map[int]int, src string) {
	for _, s := range h.sessions {
		if s.isRef && len(s.vals) == h.totalVals && s.offAt == 0 {
			idx = make(map[int]int, len(s.vals))
			for i, v := range s.vals {
				if _, dup := idx[v]; dup {
					h.anomaly("order", "ref-duplicate", "reference consumer received value %d twice", v)
				}
				idx[v] = i
			}
			return idx, "reference-consumer"
		}
	}
	if h.opts.producers == 1 {
		idx = map[int]int{}
		n := 0
		ps := append([]putRec(nil), h.puts...)
		sort.Slice(ps, func(i, j int) bool { return ps[i].call < ps[j].call })
		for _, p := range ps {
			for _, v := range p.vals {
				idx[v] = n
				n++
			}
		}
		return idx, "single-producer"
	}
	return nil, "none"
}

// checkOrder runs the chain checks; returns the number of adjacent pairs checked.
func (h *longHist) checkOrder() (pairs int, src string) {
	known := map[int]bool{}
	for _, p := range h.puts {
		for _, v := range p.vals {
			known[v] = true
		}
	}
	idx, src := h.chainIndex()
	// pairwise: successor / predecessor uniqueness across all streams and snapshots
	succ := map[int]int{}
	pred := map[int]int{}
	addPair := func(a, b int, where string) {
		pairs++
		if s, ok := succ[a]; ok && s != b {
			h.anomaly("order", "order-disagreement", "%s saw %d followed by %d, another observer saw it followed by %d", where, a, b, s)
		}
		succ[a] = b
		if p, ok := pred[b]; ok && p != a {
			h.anomaly("order", "order-disagreement", "%s saw %d preceded by %d, another observer saw it preceded by %d", where, b, a, p)
		}
		pred[b] = a
	}
	for _, s := range h.sessions {
		seen := map[int]bool{}
		for i, v := range s.vals {
			if !known[v] {
				h.anomaly("order", "invented-value", "consumer c%d received %d, which nobody put", s.cid, v)
			}
			if seen[v] {
				h.anomaly("order", "duplicate", "consumer c%d received %d twice (position %d)", s.cid, v, i)
			}
			seen[v] = true
			if i > 0 {
				addPair(s.vals[i-1], v, fmt.Sprintf("consumer c%d", s.cid))
			}
		}
	}
	for _, so := range h.slices {
		for i, v := range so.vals {
			if !known[v] {
				h.anomaly("order", "invented-value", "Slice contains %d, which nobody put", v)
			}
			if i > 0 {
				addPair(so.vals[i-1], v, "Slice")
			}
		}
	}
	// batches adjacent and in argument order wherever both neighbours were observed
	for _, p := range h.puts {
		for i := 1; i < len(p.vals); i++ {
			if s, ok := succ[p.vals[i-1]]; ok && s != p.vals[i] {
				h.anomaly("order", "batch-split", "Put(%v): %d was followed by %d, not by its batch neighbour %d", p.vals, p.vals[i-1], s, p.vals[i])
			}
		}
	}
	if idx == nil {
		return pairs, src
	}
	// with a global index: every stream is a gap-free ascending run
	for _, s := range h.sessions {
		for i := 1; i < len(s.vals); i++ {
			a, aok := idx[s.vals[i-1]]
			b, bok := idx[s.vals[i]]
			if aok && bok && b != a+1 {
				h.anomaly("order", "gap-or-reorder", "consumer c%d: position %d holds value #%d but position %d holds value #%d", s.cid, i-1, a, i, b)
			}
		}
		// start point: the oldest value retained at creation
		if len(s.vals) > 0 {
			if f, ok := idx[s.vals[0]]; ok {
				if f < s.offBefore || f > s.offAt {
					h.anomaly("order", "wrong-start", "consumer c%d started at value #%d but the oldest retained value was between #%d and #%d when it was created", s.cid, f, s.offBefore, s.offAt)
				}
			}
		}
	}
	for _, so := range h.slices {
		for i := 1; i < len(so.vals); i++ {
			a, aok := idx[so.vals[i-1]]
			b, bok := idx[so.vals[i]]
			if aok && bok && b != a+1 {
				h.anomaly("order", "slice-gap", "Slice holds value #%d followed by #%d", a, b)
			}
		}
	}
	// producers' program order and real-time order of Puts
	ps := append([]putRec(nil), h.puts...)
	sort.Slice(ps, func(i, j int) bool { return ps[i].call < ps[j].call })
	last := map[int]int{}
	for _, p := range ps {
		if len(p.vals) == 0 {
			continue
		}
		first, ok := idx[p.vals[0]]
		if !ok {
			continue
		}
		if l, ok := last[p.prod]; ok && first <= l {
			h.anomaly("order", "program-order", "producer %d: a later Put landed at #%d, before its earlier Put's #%d", p.prod, first, l)
		}
		last[p.prod] = idx[p.vals[len(p.vals)-1]]
	}
	// real time: ret(A) < call(B) => idx(A) < idx(B); check against the running maximum of returned puts
	byRet := append([]putRec(nil), ps...)
	sort.Slice(byRet, func(i, j int) bool { return byRet[i].ret < byRet[j].ret })
	j, maxIdx := 0, -1
	for _, p := range ps { // ascending call
		for j < len(byRet) && byRet[j].ret < p.call {
			if n := len(byRet[j].vals); n > 0 {
				if x, ok := idx[byRet[j].vals[n-1]]; ok && x > maxIdx {
					maxIdx = x
				}
			}
			j++
		}
		if len(p.vals) > 0 {
			if f, ok := idx[p.vals[0]]; ok && f <= maxIdx {
				h.anomaly("order", "real-time-order", "Put(%v) was called after another Put had returned but its values (#%d) precede that Put's (#%d)", p.vals, f, maxIdx)
			}
		}
	}
	return pairs, src
}

// checkRetentionHistory runs the history-level retention checks (C03 layer 3, interval form).
func (h *longHist) checkRetentionHistory() {
	idx, _ := h.chainIndex()
	for _, s := range h.sessions {
		if s.pastErrAt >= 0 && !h.opts.cs.Fixed && h.opts.custom == "" {
			h.anomaly("retention", "past-error-default-cleaner", "consumer c%d got an 'offset past' error at position %d under the default cleaner", s.cid, s.pastErrAt)
		}
	}
	if idx == nil {
		return
	}
	// Slice is the retained suffix: a contiguous run that ends at a value put no later than the call returned,
	// and whose head equals the VerifSnapshot offset taken right after at the latest
	for _, so := range h.slices {
		if len(so.vals) > 0 {
			if f, ok := idx[so.vals[0]]; ok && f > so.off {
				h.anomaly("retention", "slice-head-ahead", "Slice head is value #%d but the buffer offset observed afterwards is %d", f, so.off)
			}
		}
	}
}

func (h *longHist) summary() map[string]any {
	reads, rereads := 0, 0
	for _, s := range h.sessions {
		reads += len(s.vals)
		_ = rereads
	}
	return map[string]any{"producers": h.opts.producers, "puts": len(h.puts), "values": h.totalVals, "sessions": len(h.sessions), "distinct_reads": reads,
		"slices": len(h.slices), "cleaner_calls": atomic.LoadInt64(&h.cleanerCalls), "evicted": h.shifts, "cleaner": h.opts.cs.String(), "cooldown": h.opts.cooldown.String()}
}

func (h *longHist) report(c *core.Ctx, cats ...string) {
	want := map[string]bool{}
	for _, k := range cats {
		want[k] = true
	}
	h.mu.Lock()
	defer h.mu.Unlock()
	for _, a := range h.anomalies {
		if want[a.Cat] {
			msg := a.Msg
			if i := strings.Index(msg, "\ngoroutine "); i >= 0 {
				c.SetDump(msg[i:])
				msg = msg[:i]
			}
			c.Violate(a.Key, "%s", msg)
		}
	}
}
