package props

import (
	"errors"
	"fmt"
	"math/rand/v2"
	"reflect"
	"strings"
	"sync"
	"sync/atomic"
	"time"
	"unsafe"

	bigbuff "github.com/joeycumines/go-bigbuff"

	"verif/core"
)

// C19 — Callable: Call equals a direct call or errors without calling; never panics.

type c19Stringer struct{ s string }

func (s c19Stringer) String() string { return s.s }

type c19Struct struct{ A int }

// named types that share a kind with a predeclared type (not assignable to or from it)
type c19MyInt int
type c19MyString string

var (
	c19IntA, c19IntB = 41, 42
	c19Chan          = make(chan int, 1)
	c19Func          = func() {}
	c19Err           = errors.New("c19 error value")
	tInt             = reflect.TypeOf(0)
	tString          = reflect.TypeOf("")
	tPtrInt          = reflect.TypeOf((*int)(nil))
	tSliceInt        = reflect.TypeOf([]int(nil))
	tMap             = reflect.TypeOf(map[string]int(nil))
	tFunc            = reflect.TypeOf(func() {})
	tChan            = reflect.TypeOf((chan int)(nil))
	tAny             = reflect.TypeOf((*any)(nil)).Elem()
	tError           = reflect.TypeOf((*error)(nil)).Elem()
	tStringer        = reflect.TypeOf((*fmt.Stringer)(nil)).Elem()
	tStruct          = reflect.TypeOf(c19Struct{})
	tMyInt           = reflect.TypeOf(c19MyInt(0))
	tMyString        = reflect.TypeOf(c19MyString(""))
	tDuration        = reflect.TypeOf(time.Duration(0))
	tUnsafePtr       = reflect.TypeOf(unsafe.Pointer(nil))
	c19Types         = []reflect.Type{tInt, tString, tPtrInt, tSliceInt, tMap, tFunc, tChan, tAny, tError, tStringer, tStruct, tMyInt, tMyString, tDuration, tUnsafePtr}
	// the value pool: every entry is an interface value that may be passed as an argument / returned
	c19Values = []any{
		nil, // untyped nil
		0, 7, -3, "", "hello", &c19IntA, &c19IntB, (*int)(nil), []int{1, 2}, []int(nil), map[string]int{"a": 1}, map[string]int(nil),
		c19Func, (func())(nil), c19Chan, (chan int)(nil), c19Err, c19Stringer{"s"}, &c19Stringer{"p"}, c19Struct{5}, &c19Struct{6},
		3.5, int64(9), []string{"x"}, (<-chan int)(c19Chan), true,
		c19MyInt(4), c19MyString("named"), time.Duration(5), time.Second,
		unsafe.Pointer(&c19IntA), unsafe.Pointer(nil),
	}
)

func nilable(t reflect.Type) bool {
	switch t.Kind() {
	case reflect.Chan, reflect.Func, reflect.Interface, reflect.Map, reflect.Pointer, reflect.Slice, reflect.UnsafePointer:
		return true
	}
	return false
}

// accepts is the language rule: can v be passed where a T is expected.
func accepts(t reflect.Type, v any) bool {
	if v == nil {
		return nilable(t)
	}
	return reflect.TypeOf(v).AssignableTo(t)
}

// asType converts an accepted interface value into a reflect.Value of exactly type t.
func asType(t reflect.Type, v any) reflect.Value {
	r := reflect.New(t).Elem()
	if v != nil {
		r.Set(reflect.ValueOf(v))
	}
	return r
}

// same compares two values of the same static type: functions by pointer, everything else deeply.
func same(a, b reflect.Value) bool {
	if a.IsValid() != b.IsValid() {
		return false
	}
	if !a.IsValid() {
		return true
	}
	if a.Kind() == reflect.Interface {
		if a.IsNil() || b.Kind() != reflect.Interface || b.IsNil() {
			return b.Kind() == reflect.Interface && a.IsNil() == b.IsNil()
		}
		return same(a.Elem(), b.Elem())
	}
	if b.Kind() == reflect.Interface {
		return false
	}
	if a.Type() != b.Type() {
		return false
	}
	switch a.Kind() {
	case reflect.Func, reflect.Chan, reflect.Map, reflect.Pointer, reflect.UnsafePointer:
		return a.Pointer() == b.Pointer()
	case reflect.Slice:
		if a.IsNil() != b.IsNil() || a.Len() != b.Len() {
			return false
		}
		for i := 0; i < a.Len(); i++ {
			if !same(a.Index(i), b.Index(i)) {
				return false
			}
		}
		return true
	}
	return reflect.DeepEqual(a.Interface(), b.Interface())
}

func descValue(v any) string {
	if v == nil {
		return "nil"
	}
	rv := reflect.ValueOf(v)
	s := rv.Type().String()
	switch rv.Kind() {
	case reflect.Chan, reflect.Func, reflect.Map, reflect.Pointer, reflect.Slice:
		if rv.IsNil() {
			return s + "(nil)"
		}
		return s + "(non-nil)"
	}
	return fmt.Sprintf("%s(%v)", s, v)
}

type c19Case struct {
	in       []reflect.Type
	out      []reflect.Type
	variadic bool
	args     []any
	// results mode: 0 none, 1 CallResults, 2 CallResultsSlice
	mode      int
	targets   []any // mode 1
	sliceTgt  any   // mode 2
	rets      []any // what the function returns (each accepted by out[i])
	bodyPanic bool
	swapOpts  bool
	noArgsOpt bool // omit CallArgs (only when the function takes no arguments)
	dupOpts   bool // every option is preceded by an earlier option of its kind, which it replaces ("defaults first")
}

func (k *c19Case) String() string {
	var as, ts []string
	for i, a := range k.args {
		if i >= 6 {
			as = append(as, fmt.Sprintf("...(%d args)", len(k.args)))
			break
		}
		as = append(as, descValue(a))
	}
	var rs []string
	for _, a := range k.rets {
		rs = append(rs, descValue(a))
	}
	for _, t := range k.targets {
		ts = append(ts, descValue(t))
	}
	return fmt.Sprintf("func%v variadic=%v -> %v args=[%s] mode=%d targets=[%s] slice=%s rets=%v panic=%v swap=%v noargs=%v",
		k.in, k.variadic, k.out, strings.Join(as, ", "), k.mode, strings.Join(ts, ", "), descValue(k.sliceTgt), rs, k.bodyPanic, k.swapOpts, k.noArgsOpt)
}

// wellTyped is the reference for the arguments.
func (k *c19Case) wellTyped() bool {
	n := len(k.in)
	if !k.variadic {
		if len(k.args) != n {
			return false
		}
		for i, a := range k.args {
			if !accepts(k.in[i], a) {
				return false
			}
		}
		return true
	}
	if len(k.args) < n-1 {
		return false
	}
	for i, a := range k.args {
		t := k.in[n-1].Elem()
		if i < n-1 {
			t = k.in[i]
		}
		if !accepts(t, a) {
			return false
		}
	}
	return true
}

// targetsOK is the reference for the result targets.
func (k *c19Case) targetsOK() bool {
	switch k.mode {
	case 0:
		return true
	case 1:
		if len(k.targets) != len(k.out) {
			return false
		}
		for i, t := range k.targets {
			if t == nil {
				return false
			}
			rv := reflect.ValueOf(t)
			if rv.Kind() != reflect.Pointer || rv.IsNil() {
				return false
			}
			if !k.out[i].AssignableTo(rv.Type().Elem()) {
				return false
			}
		}
		return true
	default:
		if k.sliceTgt == nil {
			return false
		}
		rv := reflect.ValueOf(k.sliceTgt)
		if rv.Kind() != reflect.Pointer || rv.IsNil() || rv.Elem().Kind() != reflect.Slice {
			return false
		}
		for _, o := range k.out {
			if !o.AssignableTo(rv.Elem().Type().Elem()) {
				return false
			}
		}
		return true
	}
}

type c19Outcome struct {
	key, msg string
}

var errC19Body = errors.New("c19 deliberate body panic")

// what the called function panics with: its own sentinel, or something that looks as if it came out of the reflect
// package or the runtime (a function that uses reflection, indexes a slice, ... panics like that): whatever it is, it
// is the function's own panic and propagates unchanged
var c19ValueError = &reflect.ValueError{Method: "reflect.Value.Int", Kind: reflect.String}

func (k *c19Case) panicValue() any {
	switch (len(k.in)*7 + len(k.out)*3 + len(k.args)) % 4 {
	case 1:
		return c19ValueError
	case 2:
		return "reflect: call of reflect.Value.Index on zero Value"
	case 3:
		return "reflect.Set: value of type int is not assignable to type string"
	}
	return errC19Body
}

func c19SamePanic(got, want any) bool {
	defer func() { recover() }()
	return got == want
}

// run executes the case against the library and compares with the reference.
func (k *c19Case) run() *c19Outcome {
	var (
		calls   int
		gotArgs []reflect.Value
	)
	ft := reflect.FuncOf(k.in, k.out, k.variadic)
	fn := reflect.MakeFunc(ft, func(args []reflect.Value) []reflect.Value {
		calls++
		gotArgs = append([]reflect.Value(nil), args...)
		if k.bodyPanic {
			panic(k.panicValue())
		}
		rs := make([]reflect.Value, len(k.out))
		for i, t := range k.out {
			rs[i] = asType(t, k.rets[i])
		}
		return rs
	})
	// snapshot targets
	type snap struct {
		ptr reflect.Value
		old reflect.Value
	}
	var snaps []snap
	snapOf := func(t any) {
		if t == nil {
			return
		}
		rv := reflect.ValueOf(t)
		if rv.Kind() == reflect.Pointer && !rv.IsNil() {
			old := reflect.New(rv.Type().Elem()).Elem()
			old.Set(rv.Elem())
			if old.Kind() == reflect.Slice && !old.IsNil() {
				cp := reflect.MakeSlice(old.Type(), old.Len(), old.Len())
				reflect.Copy(cp, old)
				old = cp
			}
			snaps = append(snaps, snap{rv, old})
		}
	}
	for _, t := range k.targets {
		snapOf(t)
	}
	snapOf(k.sliceTgt)

	var opts []bigbuff.CallOption
	if !k.noArgsOpt {
		opts = append(opts, bigbuff.CallArgs(k.args...))
	}
	switch k.mode {
	case 1:
		opts = append(opts, bigbuff.CallResults(k.targets...))
	case 2:
		opts = append(opts, bigbuff.CallResultsSlice(k.sliceTgt))
	}
	if k.swapOpts && len(opts) == 2 {
		opts[0], opts[1] = opts[1], opts[0]
	}
	if k.dupOpts {
		// earlier options of the same kinds, replaced by the later ones: the same argument list once more, and a
		// catch-all slice target (valid for every signature) that must end up unused
		var pre []bigbuff.CallOption
		if !k.noArgsOpt {
			pre = append(pre, bigbuff.CallArgs(append([]any(nil), k.args...)...))
		}
		if k.mode != 0 {
			scratch := []any{}
			pre = append(pre, bigbuff.CallResultsSlice(&scratch))
		}
		opts = append(pre, opts...)
	}
	var err error
	pv := core.Recover(func() {
		err = bigbuff.Call(bigbuff.NewCallable(fn.Interface()), opts...)
	})
	ok := k.wellTyped() && k.targetsOK()
	if pv != nil {
		if ok && k.bodyPanic && c19SamePanic(pv, k.panicValue()) && calls == 1 {
			// the function's own panic propagated unchanged; targets must be untouched
			for _, s := range snaps {
				if !same(s.ptr.Elem(), s.old) {
					return &c19Outcome{"target-modified-on-panic", "result target modified although the function panicked"}
				}
			}
			return nil
		}
		if len(k.args) > 128 && strings.Contains(fmt.Sprint(pv), "reflect.FuncOf: too many arguments") {
			return &c19Outcome{"callargs-over-128", fmt.Sprintf("Call panicked on its own account: %v (more than 128 arguments)", pv)}
		}
		return &c19Outcome{"own-panic", fmt.Sprintf("Call panicked on its own account: %v", firstLineOf(fmt.Sprint(pv)))}
	}
	if !ok {
		if err == nil {
			return &c19Outcome{"ill-typed-no-error", fmt.Sprintf("ill-typed call returned nil error (calls=%d)", calls)}
		}
		if calls != 0 {
			return &c19Outcome{"ill-typed-invoked", fmt.Sprintf("function invoked %d times although the call is ill-typed (err=%v)", calls, err)}
		}
		if strings.TrimSpace(err.Error()) == "" {
			return &c19Outcome{"empty-error", "error is not descriptive (empty)"}
		}
		for _, s := range snaps {
			if !same(s.ptr.Elem(), s.old) {
				return &c19Outcome{"target-modified-on-error", "result target modified on the error path"}
			}
		}
		return nil
	}
	// well typed
	if k.bodyPanic {
		return &c19Outcome{"panic-swallowed", fmt.Sprintf("function panicked but Call returned normally (err=%v)", err)}
	}
	if err != nil {
		return &c19Outcome{"well-typed-error", fmt.Sprintf("well-typed call returned error: %v", err)}
	}
	if calls != 1 {
		return &c19Outcome{"call-count", fmt.Sprintf("function invoked %d times, want 1", calls)}
	}
	// arguments
	n := len(k.in)
	if len(gotArgs) != n {
		return &c19Outcome{"arg-count", fmt.Sprintf("function saw %d params, want %d", len(gotArgs), n)}
	}
	for i := 0; i < n; i++ {
		if k.variadic && i == n-1 {
			extra := k.args[n-1:]
			if gotArgs[i].Len() != len(extra) {
				return &c19Outcome{"variadic-len", fmt.Sprintf("variadic slice has %d elements, want %d", gotArgs[i].Len(), len(extra))}
			}
			for j, a := range extra {
				if !same(gotArgs[i].Index(j), asType(k.in[i].Elem(), a)) {
					return &c19Outcome{"variadic-arg", fmt.Sprintf("variadic argument %d differs", j)}
				}
			}
			continue
		}
		if !same(gotArgs[i], asType(k.in[i], k.args[i])) {
			return &c19Outcome{"arg-value", fmt.Sprintf("argument %d differs: got %v want %s", i, gotArgs[i], descValue(k.args[i]))}
		}
	}
	// results
	switch k.mode {
	case 1:
		for i, t := range k.targets {
			el := reflect.ValueOf(t).Elem()
			if !same(el, asType(el.Type(), asType(k.out[i], k.rets[i]).Interface())) {
				return &c19Outcome{"result-value", fmt.Sprintf("result %d differs: got %v want %s", i, el, descValue(k.rets[i]))}
			}
		}
	case 2:
		el := reflect.ValueOf(k.sliceTgt).Elem()
		var old reflect.Value
		for _, s := range snaps {
			if s.ptr == reflect.ValueOf(k.sliceTgt) {
				old = s.old
			}
		}
		if el.Len() != old.Len()+len(k.out) {
			return &c19Outcome{"slice-len", fmt.Sprintf("result slice has %d elements, want %d", el.Len(), old.Len()+len(k.out))}
		}
		for i := 0; i < old.Len(); i++ {
			if !same(el.Index(i), old.Index(i)) {
				return &c19Outcome{"slice-prefix", "existing slice content changed"}
			}
		}
		for i := range k.out {
			if !same(el.Index(old.Len()+i), asType(el.Type().Elem(), asType(k.out[i], k.rets[i]).Interface())) {
				return &c19Outcome{"slice-value", fmt.Sprintf("appended result %d differs", i)}
			}
		}
	}
	return nil
}

func firstLineOf(s string) string {
	if i := strings.IndexByte(s, '\n'); i >= 0 {
		return s[:i]
	}
	return s
}

func valuesFor(t reflect.Type) []any {
	var vs []any
	for _, v := range c19Values {
		if accepts(t, v) {
			vs = append(vs, v)
		}
	}
	return vs
}

// targetPool returns candidate result targets for an out type (valid and invalid).
func targetPool(r *rand.Rand, t reflect.Type) any {
	switch r.IntN(10) {
	case 0:
		return nil // untyped nil
	case 1:
		return reflect.Zero(reflect.PointerTo(t)).Interface() // typed nil pointer
	case 2:
		return reflect.New(tAny).Interface() // *any accepts everything
	case 3:
		return reflect.New(t).Elem().Interface() // not a pointer (may be nil interface)
	case 4:
		o := c19Types[r.IntN(len(c19Types))]
		return reflect.New(o).Interface() // pointer to some other type
	default:
		p := reflect.New(t)
		if vs := valuesFor(t); len(vs) > 0 && r.IntN(2) == 0 {
			p.Elem().Set(asType(t, vs[r.IntN(len(vs))])) // pre-filled target
		}
		return p.Interface()
	}
}

func slicePool(r *rand.Rand, out []reflect.Type) any {
	switch r.IntN(10) {
	case 0:
		return nil
	case 1:
		return (*[]any)(nil)
	case 2:
		return []any{}
	case 3:
		x := 5
		return &x
	case 4:
		return &[]int{1}
	case 5:
		return &[]string{}
	case 6:
		s := []any{"pre", 1}
		return &s
	case 7:
		if len(out) > 0 {
			return reflect.New(reflect.SliceOf(out[0])).Interface()
		}
		return &[]error{}
	default:
		return &[]any{}
	}
}

func genC19(r *rand.Rand) *c19Case {
	k := &c19Case{}
	nin := r.IntN(5)
	for i := 0; i < nin; i++ {
		k.in = append(k.in, c19Types[r.IntN(len(c19Types))])
	}
	if nin > 0 && r.IntN(3) == 0 {
		k.variadic = true
		k.in[nin-1] = reflect.SliceOf(k.in[nin-1])
	}
	nout := r.IntN(4)
	for i := 0; i < nout; i++ {
		t := c19Types[r.IntN(len(c19Types))]
		k.out = append(k.out, t)
		vs := valuesFor(t)
		k.rets = append(k.rets, vs[r.IntN(len(vs))])
	}
	// arguments: mostly well-typed, sometimes perturbed
	nargs := nin
	if k.variadic {
		nargs = nin - 1 + r.IntN(4)
	}
	for i := 0; i < nargs; i++ {
		t := tAny
		if k.variadic && i >= nin-1 {
			t = k.in[nin-1].Elem()
		} else if i < nin {
			t = k.in[i]
		}
		vs := valuesFor(t)
		k.args = append(k.args, vs[r.IntN(len(vs))])
	}
	switch r.IntN(8) {
	case 0: // a random (possibly wrong) value somewhere
		if len(k.args) > 0 {
			k.args[r.IntN(len(k.args))] = c19Values[r.IntN(len(c19Values))]
		}
	case 1: // drop one
		if len(k.args) > 0 {
			k.args = k.args[:len(k.args)-1]
		}
	case 2: // one too many
		k.args = append(k.args, c19Values[r.IntN(len(c19Values))])
	case 3: // untyped nil somewhere
		if len(k.args) > 0 {
			k.args[r.IntN(len(k.args))] = nil
		}
	}
	k.mode = r.IntN(3)
	switch k.mode {
	case 1:
		nt := nout
		switch r.IntN(8) {
		case 0:
			nt++
		case 1:
			if nt > 0 {
				nt--
			}
		}
		for i := 0; i < nt; i++ {
			t := tAny
			if i < nout {
				t = k.out[i]
			}
			if r.IntN(4) == 0 {
				k.targets = append(k.targets, targetPool(r, t))
			} else {
				k.targets = append(k.targets, reflect.New(t).Interface())
			}
		}
	case 2:
		if r.IntN(3) == 0 {
			k.sliceTgt = slicePool(r, k.out)
		} else {
			k.sliceTgt = &[]any{}
		}
	}
	k.bodyPanic = r.IntN(12) == 0
	k.swapOpts = r.IntN(4) == 0
	k.dupOpts = r.IntN(6) == 0
	if nin == 0 && len(k.args) == 0 && r.IntN(3) == 0 {
		k.noArgsOpt = true
	}
	return k
}

func c19Report(c *core.Ctx, k *c19Case, o *c19Outcome) {
	c.Violate(o.key, "%s\n  case: %s", o.msg, k.String())
}

func init() {
	core.Register(&core.Property{
		ID: "C19",
		Rule: "cases = generated function signatures (reflect.FuncOf/MakeFunc over an 11-type pool, arity 0-4, variadic or not, 0-3 results) x argument lists (well-typed, " +
			"one value replaced, one dropped, one extra, untyped nil) x result options (none / CallResults / CallResultsSlice with valid and invalid targets; in a sixth of the cases every option is preceded by an earlier, valid option of its kind that it replaces); plus complete enumeration of a reduced pool " +
			"(arity<=2 over the value pool), a huge-variadic family, common-shapes: the signatures everybody writes (func() (interface{}, error), func() error, ...) x every nil / non-nil result combination x every result option (complete); and homonymous-types: pairs of signatures that differ only in two distinct types which print identically (function-local types with one name), called one after the other in one process with well-typed and cross-typed arguments and targets; each case is compared with an independent well-typedness reference. non-trivial = the case mixes at least one argument with a result option or is ill-typed; " +
			"distinct = distinct (signature, args, targets) descriptions",
		Assumptions: []string{
			"CallArgs is always supplied unless the function takes no parameters (the statement speaks of Call with CallArgs and CallResults/CallResultsSlice)",
			"CallArgsRaw/CallResultsRaw thunks are outside the statement",
			"reference well-typedness is Go assignability (reflect.Type.AssignableTo) plus: untyped nil is accepted exactly by nilable kinds",
		},
		Families: []core.Family{
			{Name: "random", N: core.TierN(200, 8000), Batch: 10, Run: c19Random},
			{Name: "enum-small", N: core.TierN(1, 1), Solo: true, Run: c19Enum},
			{Name: "nil-directed", N: core.TierN(1, 1), Solo: true, Run: c19NilHuge},
			{Name: "huge-variadic", N: core.TierN(1, 1), Solo: true, Run: c19Huge},
			{Name: "shared-options", N: core.TierN(8, 80), Batch: 2, Run: c19SharedOptions},
			{Name: "homonymous-types", N: core.TierN(20, 400), Batch: 5, Run: c19Homonymous},
			{Name: "common-shapes", N: core.TierN(1, 1), Solo: true, Run: c19CommonShapes},
		},
	})
}

func c19Random(c *core.Ctx) {
	n := 600
	if c.Thorough() {
		n = 3000
	}
	distinct := map[string]bool{}
	ill, well := 0, 0
	var sample []string
	for i := 0; i < n; i++ {
		k := genC19(c.Rng)
		d := k.String()
		distinct[d] = true
		if k.wellTyped() && k.targetsOK() {
			well++
		} else {
			ill++
		}
		if i < 3 {
			sample = append(sample, d)
		}
		if o := k.run(); o != nil {
			c19Report(c, k, o)
		}
	}
	c.Op("call", n)
	c.Count("cases_well_typed", well)
	c.Count("cases_ill_typed", ill)
	c.Count("cases_distinct", len(distinct))
	if ill > 0 && well > 0 {
		c.Nontrivial()
	}
	c.Sig(c.Seed, len(distinct))
	if c.Index < 1 {
		c.SetHistory(sample)
	}
}

// c19Enum enumerates completely: every signature of arity <= 2 over a reduced type pool (non-variadic and variadic),
// every argument list of length 0..3 over a reduced value pool, with CallResults to a correct target.
func c19Enum(c *core.Ctx) {
	types := []reflect.Type{tInt, tPtrInt, tAny, tError, tSliceInt, tMyInt}
	vals := []any{nil, 7, &c19IntA, (*int)(nil), c19Err, []int{1}, "s", c19MyInt(8)}
	var sigs [][]reflect.Type
	sigs = append(sigs, nil)
	for _, a := range types {
		sigs = append(sigs, []reflect.Type{a})
		for _, b := range types {
			sigs = append(sigs, []reflect.Type{a, b})
		}
	}
	var argLists [][]any
	argLists = append(argLists, nil)
	for _, a := range vals {
		argLists = append(argLists, []any{a})
		for _, b := range vals {
			argLists = append(argLists, []any{a, b})
			for _, d := range vals {
				argLists = append(argLists, []any{a, b, d})
			}
		}
	}
	cases, well := 0, 0
	for _, in := range sigs {
		for _, variadic := range []bool{false, true} {
			if variadic && len(in) == 0 {
				continue
			}
			for _, args := range argLists {
				k := &c19Case{in: append([]reflect.Type(nil), in...), variadic: variadic, args: args, out: []reflect.Type{tInt}, rets: []any{len(args)}, mode: 1}
				if variadic {
					k.in[len(k.in)-1] = reflect.SliceOf(k.in[len(k.in)-1])
				}
				var r int = -1
				k.targets = []any{&r}
				cases++
				if k.wellTyped() {
					well++
				}
				if o := k.run(); o != nil {
					c19Report(c, k, o)
				}
			}
		}
	}
	c.Op("call", cases)
	c.Count("cases_well_typed", well)
	c.Count("cases_ill_typed", cases-well)
	c.ExhaustiveFamily("signatures(arity<=2 over 6 types, +variadic) x arglists(len<=3 over 8 values)", cases)
	c.Nontrivial()
	c.Sig("enum", cases, well)
}

// c19NilHuge: directed inputs — untyped nil in every position for every type, nil/odd targets, very long variadic lists.
func c19NilHuge(c *core.Ctx) {
	cases := 0
	for _, t := range c19Types {
		for _, variadic := range []bool{false, true} {
			for nargs := 0; nargs <= 3; nargs++ {
				k := &c19Case{in: []reflect.Type{t}, variadic: variadic, out: []reflect.Type{t}, mode: 1}
				if variadic {
					k.in[0] = reflect.SliceOf(t)
				}
				for i := 0; i < nargs; i++ {
					k.args = append(k.args, nil)
				}
				vs := valuesFor(t)
				k.rets = []any{vs[len(vs)-1]}
				for _, tgt := range []any{nil, reflect.New(t).Interface(), reflect.Zero(reflect.PointerTo(t)).Interface(), new(any), 5, (*any)(nil)} {
					k2 := *k
					k2.targets = []any{tgt}
					cases++
					if o := k2.run(); o != nil {
						c19Report(c, &k2, o)
					}
				}
				for _, st := range []any{nil, &[]any{}, (*[]any)(nil), []any{}, reflect.New(reflect.SliceOf(t)).Interface()} {
					k2 := *k
					k2.mode = 2
					k2.sliceTgt = st
					cases++
					if o := k2.run(); o != nil {
						c19Report(c, &k2, o)
					}
				}
			}
		}
	}
	c.Op("call", cases)
	c.Nontrivial()
	c.Sig("nil", cases)
}

// c19Huge: long variadic lists (direct calls with that many arguments are legal Go).
func c19Huge(c *core.Ctx) {
	cases := 0
	for _, n := range []int{10, 64, 127, 128, 129, 200, 1000} {
		k := &c19Case{in: []reflect.Type{tString, reflect.SliceOf(tAny)}, variadic: true, out: []reflect.Type{tInt}, rets: []any{n}, mode: 1}
		k.args = append(k.args, "s")
		for i := 1; i < n; i++ {
			k.args = append(k.args, i)
		}
		var r int
		k.targets = []any{&r}
		cases++
		if o := k.run(); o != nil {
			c19Report(c, k, o)
		}
	}
	c.Op("call", cases)
	c.Nontrivial()
	c.Sig("huge", cases)
}

// c19SharedOptions: one CallArgs / CallResultsSlice option value applied concurrently to callables of different
// signatures (an option is a value like any other: nothing says it must be rebuilt per call).
func c19SharedOptions(c *core.Ctx) {
	type rec struct {
		mu   sync.Mutex
		seen []string
	}
	opt := bigbuff.CallArgs(7, "x")
	fnA := func(a int, b string) string { return fmt.Sprintf("A:%d:%s", a, b) }
	fnB := func(xs ...interface{}) string { return fmt.Sprintf("B:%v", xs) }
	fnC := func(a interface{}, b interface{}) string { return fmt.Sprintf("C:%v:%v", a, b) }
	fnD := func(a int) string { return "D" } // ill-typed for two arguments: must error
	var bad atomic.Value
	var wg sync.WaitGroup
	iters := 3000
	for g := 0; g < 4; g++ {
		g := g
		wg.Add(1)
		go func() {
			defer wg.Done()
			for i := 0; i < iters; i++ {
				var out string
				var err error
				var want string
				pv := core.Recover(func() {
					switch (g + i) % 4 {
					case 0:
						err, want = bigbuff.Call(bigbuff.NewCallable(fnA), opt, bigbuff.CallResults(&out)), "A:7:x"
					case 1:
						err, want = bigbuff.Call(bigbuff.NewCallable(fnB), opt, bigbuff.CallResults(&out)), "B:[7 x]"
					case 2:
						err, want = bigbuff.Call(bigbuff.NewCallable(fnC), opt, bigbuff.CallResults(&out)), "C:7:x"
					default:
						err = bigbuff.Call(bigbuff.NewCallable(fnD), opt, bigbuff.CallResults(&out))
						if err == nil {
							err = fmt.Errorf("ill-typed call returned nil error")
						} else {
							err = nil
						}
						want = ""
					}
				})
				if pv != nil {
					bad.Store(fmt.Sprintf("Call panicked on its own account with a shared option: %v", firstLineOf(fmt.Sprint(pv))))
					return
				}
				if err != nil || out != want {
					bad.Store(fmt.Sprintf("shared option: got (%q, %v), want %q", out, err, want))
					return
				}
			}
		}()
	}
	wg.Wait()
	if b := bad.Load(); b != nil {
		c.Violate("shared-option", "%v", b)
	}
	c.Op("call", 4*iters)
	c.Nontrivial()
	c.Sig("shared", c.Index)
}

// Two distinct struct types that print identically ("props.T"): signatures that differ only in these have equal
// String() but are different types.
func c19HomonymA() (reflect.Type, any) {
	type T struct{ A int }
	return reflect.TypeOf(T{}), T{A: 1}
}

func c19HomonymB() (reflect.Type, any) {
	type T struct{ B string }
	return reflect.TypeOf(T{}), T{B: "b"}
}

// c19Subst returns a copy of the case with type a replaced by type b in the signature and in what the body returns
// (so that the function itself stays well-formed); arguments and targets are replaced only if all is set.
func c19Subst(k *c19Case, a, b reflect.Type, va, vb any, all bool) *c19Case {
	st := func(t reflect.Type) reflect.Type {
		if t == a {
			return b
		}
		if t.Kind() == reflect.Slice && t.Elem() == a {
			return reflect.SliceOf(b)
		}
		return t
	}
	sv := func(v any) any {
		if v != nil && reflect.TypeOf(v) == a {
			return vb
		}
		return v
	}
	n := *k
	n.in, n.out, n.rets, n.args, n.targets = nil, nil, nil, nil, nil
	for _, t := range k.in {
		n.in = append(n.in, st(t))
	}
	for _, t := range k.out {
		n.out = append(n.out, st(t))
	}
	for _, v := range k.rets {
		n.rets = append(n.rets, sv(v))
	}
	for _, v := range k.args {
		if all {
			v = sv(v)
		}
		n.args = append(n.args, v)
	}
	for _, t := range k.targets {
		if t != nil && reflect.TypeOf(t) == reflect.PointerTo(a) {
			if all {
				t = reflect.New(b).Interface()
			} else {
				t = reflect.New(a).Interface() // a fresh target of the other type
			}
		}
		n.targets = append(n.targets, t)
	}
	if k.sliceTgt != nil && reflect.TypeOf(k.sliceTgt) == reflect.PointerTo(reflect.SliceOf(a)) {
		if all {
			n.sliceTgt = reflect.New(reflect.SliceOf(b)).Interface()
		} else {
			n.sliceTgt = reflect.New(reflect.SliceOf(a)).Interface()
		}
	}
	return &n
}

// c19Homonymous: signature pairs that differ only in two homonymous types, used one after the other (whatever the
// library remembers about a signature must be keyed by the type itself, not by how it prints).
func c19Homonymous(c *core.Ctx) {
	ta, va := c19HomonymA()
	tb, vb := c19HomonymB()
	if ta == tb || ta.String() != tb.String() {
		c.Inconclusive("the two local types are not homonymous (%s, %s)", ta, tb)
		return
	}
	// the generator draws from the global pools: add the first type for the duration of this scenario
	c19Types = append(c19Types, ta, ta, ta)
	c19Values = append(c19Values, va)
	defer func() { c19Types = c19Types[:len(c19Types)-3]; c19Values = c19Values[:len(c19Values)-1] }()
	calls, pairs := 0, 0
	for i := 0; i < 200; i++ {
		k := genC19(c.Rng)
		uses := false
		for _, t := range append(append([]reflect.Type{}, k.in...), k.out...) {
			if t == ta || t.Kind() == reflect.Slice && t.Elem() == ta {
				uses = true
			}
		}
		if !uses {
			continue
		}
		pairs++
		first, second := ta, tb
		fv, sv := va, vb
		if c.Rng.IntN(2) == 0 {
			// the other one first
			k = c19Subst(k, ta, tb, va, vb, true)
			first, second, fv, sv = tb, ta, vb, va
		}
		for _, kk := range []*c19Case{k, c19Subst(k, first, second, fv, sv, true), c19Subst(k, first, second, fv, sv, false), k} {
			calls++
			if o := kk.run(); o != nil {
				c19Report(c, kk, o)
			}
		}
	}
	c.Op("call", calls)
	c.Count("homonymous_signature_pairs", pairs)
	if pairs > 0 {
		c.Nontrivial()
	}
	c.Sig("homonymous", c.Seed, pairs)
}

// c19CommonShapes: the signatures everybody writes (the package's own work-function shape func() (interface{}, error),
// func() error, func() interface{}, func(interface{}) error, ...) with every combination of nil / non-nil results,
// under every result option, with and without a replaced earlier option. (A special case for a popular signature is a
// natural optimisation; it has to behave like the general path.)
func c19CommonShapes(c *core.Ctx) {
	shapes := []struct{ in, out []reflect.Type }{
		{nil, []reflect.Type{tAny, tError}},
		{nil, []reflect.Type{tError}},
		{nil, []reflect.Type{tAny}},
		{nil, nil},
		{[]reflect.Type{tAny}, []reflect.Type{tError}},
		{[]reflect.Type{tAny}, []reflect.Type{tAny, tError}},
		{[]reflect.Type{tInt}, []reflect.Type{tInt, tError}},
		{[]reflect.Type{tString}, []reflect.Type{tString}},
	}
	retsFor := func(t reflect.Type) []any {
		switch t {
		case tAny:
			return []any{nil, 7, "hello", &c19IntA}
		case tError:
			return []any{nil, c19Err}
		case tInt:
			return []any{0, 7}
		default:
			return []any{"", "hello"}
		}
	}
	cases := 0
	var rec func(k *c19Case, i int)
	rec = func(k *c19Case, i int) {
		if i < len(k.out) {
			for _, v := range retsFor(k.out[i]) {
				kk := *k
				kk.rets = append(append([]any(nil), k.rets...), v)
				rec(&kk, i+1)
			}
			return
		}
		for mode := 0; mode < 3; mode++ {
			for _, dup := range []bool{false, true} {
				for _, swap := range []bool{false, true} {
					kk := *k
					kk.mode, kk.dupOpts, kk.swapOpts = mode, dup, swap
					kk.targets, kk.sliceTgt = nil, nil
					switch mode {
					case 1:
						for _, t := range kk.out {
							p := reflect.New(t)
							if vs := valuesFor(t); len(vs) > 1 {
								p.Elem().Set(asType(t, vs[1])) // a pre-filled (stale) target
							}
							kk.targets = append(kk.targets, p.Interface())
						}
					case 2:
						sl := []any{"pre"}
						kk.sliceTgt = &sl
					}
					cases++
					if o := kk.run(); o != nil {
						c19Report(c, &kk, o)
					}
				}
			}
		}
	}
	for _, sh := range shapes {
		k := &c19Case{in: sh.in, out: sh.out}
		for _, t := range sh.in {
			vs := valuesFor(t)
			k.args = append(k.args, vs[len(vs)-1])
		}
		rec(k, 0)
	}
	c.Op("call", cases)
	c.ExhaustiveFamily("8 common signatures x every nil/non-nil result combination x result option x {plain, replaced earlier option} x option order", cases)
	c.Nontrivial()
	c.Sig("common-shapes", cases)
}
