package props

import (
	"context"
	"fmt"
	"sort"
	"sync"
	"sync/atomic"
	"time"

	bigbuff "github.com/joeycumines/go-bigbuff"

	"verif/core"
)

// Shared ChanPubSub workload (C06: delivery/order oracle, C07: termination/no-panic/accounting oracle).

var pubsubSites = []string{"pubsub.send.excl", "pubsub.send.counted", "pubsub.send.armed", "pubsub.send.delivered", "pubsub.unsub.spin", "pubsub.unsub.decided",
	"pubsub.unsub.counted", "pubsub.iter.received", "caster.send.locked", "caster.send.armed", "caster.send.sent", "caster.send.drained", "caster.add.pos.locked", "caster.add.neg.applied"}

var psSubKinds = []string{"manual", "manual", "manual-timer", "manual-immediate", "iter", "iter", "iter-cancel", "iter-cancel-timer", "iter-never", "iter-cancel-then-run", "iter-precancelled", "iter-panic", "iter-nil-yield"}

type psReceipt struct {
	v     int
	stamp int64 // manual: between receive and Wait; iterator: at yield
}

type psSub struct {
	id          int
	kind        string
	sentinel    bool
	subCall     int64
	subRet      int64
	leaveBegin  int64 // stamp taken before the withdrawal starts (0 = never started)
	leaveEnd    int64
	receipts    []psReceipt
	manualStamp bool
}

type psSend struct {
	sender, v int
	call, ret int64
	n         int
}

type psOpts struct {
	senders   int
	perSender int
	subs      int
	sentinel  bool
	kinds     []string // allowed kinds
	// joinLate: subscribers are started at random instants during the run (else all before the senders)
	joinLate bool
}

type psHist struct {
	opts     psOpts
	subs     []*psSub
	sends    []psSend
	panics   []string
	blocked  string // non-empty: a call did not return (dump)
	finalAdd int
	roundOK  bool
	roundMsg string
	mu       sync.Mutex
}

func (h *psHist) panicked(what string, pv any) {
	h.mu.Lock()
	h.panics = append(h.panics, fmt.Sprintf("%s: %v", what, pv))
	h.mu.Unlock()
}

func runPubSub(c *core.Ctx, o psOpts) *psHist {
	h := &psHist{opts: o}
	ps := bigbuff.NewChanPubSub(make(chan int))
	stopAll := make(chan struct{})
	var stopOnce sync.Once
	stop := func() { stopOnce.Do(func() { close(stopAll) }) }
	var aborted atomic.Bool
	guard := func(what string, fn func()) bool {
		if pv := core.Recover(fn); pv != nil {
			h.panicked(what, pv)
			aborted.Store(true)
			stop()
			return false
		}
		return true
	}
	var subWG sync.WaitGroup
	startSub := func(s *psSub, seed uint64) {
		subWG.Add(1)
		go func() {
			defer subWG.Done()
			r := newRand(seed)
			k := 1 + r.IntN(6) // receipts before leaving
			switch s.kind {
			case "manual", "manual-timer", "manual-immediate", "sentinel":
				s.manualStamp = true
				s.subCall = core.Now()
				if !guard("Add(1)", func() {
					if r.IntN(2) == 0 {
						ps.Subscribe()
					} else {
						ps.Add(1)
					}
				}) {
					return
				}
				s.subRet = core.Now()
				var timer <-chan time.Time
				if s.kind == "manual-timer" {
					t := time.NewTimer(time.Duration(r.IntN(1500)) * time.Microsecond)
					defer t.Stop()
					timer = t.C
				}
				leave := func() {
					s.leaveBegin = core.Now()
					guard("Add(-1)", func() {
						if r.IntN(2) == 0 {
							ps.Unsubscribe()
						} else {
							ps.Add(-1)
						}
					})
					s.leaveEnd = core.Now()
				}
				if s.kind == "manual-immediate" {
					if r.IntN(2) == 0 {
						time.Sleep(time.Duration(r.IntN(100)) * time.Microsecond)
					}
					leave()
					return
				}
				var ch chan int
				if !guard("C()", func() { ch = ps.C() }) {
					return
				}
				for {
					select {
					case v := <-ch:
						st := core.Now()
						if !guard("Wait", func() { ps.Wait() }) {
							return
						}
						s.receipts = append(s.receipts, psReceipt{v, st})
						if !s.sentinel && s.kind == "manual" && len(s.receipts) >= k {
							leave()
							return
						}
					case <-timer:
						leave()
						return
					case <-stopAll:
						leave()
						return
					}
				}
			default: // iterator kinds
				var ctx context.Context
				var cancel func()
				if r.IntN(2) == 0 {
					ctx, cancel = context.WithCancel(context.Background())
				} else {
					// a Context that is not the standard library's: context.AfterFunc then watches Done from a goroutine,
					// so a cancellation and the start of the iterator can be observed in either order
					mc := &manualCtx{done: make(chan struct{})}
					ctx, cancel = mc, mc.cancel
				}
				defer cancel()
				if s.kind == "iter-precancelled" {
					cancel() // the context is already cancelled when the subscription is made
				}
				s.subCall = core.Now()
				var seq func(func(int) bool)
				if !guard("SubscribeContext", func() { seq = ps.SubscribeContext(ctx) }) {
					return
				}
				s.subRet = core.Now()
				// stop => cancel
				go func() {
					select {
					case <-stopAll:
						cancel()
					case <-ctx.Done():
					}
				}()
				switch s.kind {
				case "iter-precancelled":
					s.leaveBegin = s.subCall
					if r.IntN(2) == 0 {
						if r.IntN(2) == 0 {
							time.Sleep(time.Duration(r.IntN(200)) * time.Microsecond)
						}
						guard("iterate-precancelled", func() {
							seq(func(v int) bool {
								s.receipts = append(s.receipts, psReceipt{v, core.Now()})
								return true
							})
						})
					}
					s.leaveEnd = core.Now()
					return
				case "iter-never":
					time.Sleep(time.Duration(r.IntN(800)) * time.Microsecond)
					s.leaveBegin = core.Now()
					cancel() // the AfterFunc unsubscribes asynchronously
					return
				case "iter-nil-yield":
					// the iterator is called with a nil yield function (documented to panic; recovered here): one more
					// way of leaving. Either straight away, or after the context was cancelled (the subscription has
					// then been withdrawn already, or is being withdrawn, by the cancellation), or twice in a row.
					time.Sleep(time.Duration(r.IntN(500)) * time.Microsecond)
					s.leaveBegin = core.Now()
					mode := r.IntN(3)
					if mode == 0 {
						cancel()
						if r.IntN(2) == 0 {
							time.Sleep(time.Duration(r.IntN(300)) * time.Microsecond)
						}
					}
					core.Recover(func() { seq(nil) })
					if mode == 2 {
						core.Recover(func() { seq(nil) })
					}
					s.leaveEnd = core.Now()
					return
				case "iter-cancel-then-run":
					time.Sleep(time.Duration(r.IntN(300)) * time.Microsecond)
					s.leaveBegin = core.Now()
					cancel()
					switch r.IntN(3) {
					case 0:
						time.Sleep(time.Duration(r.IntN(200)) * time.Microsecond)
					case 1:
						spin(r.IntN(20))
					}
					guard("iterate-after-cancel", func() {
						seq(func(v int) bool {
							s.receipts = append(s.receipts, psReceipt{v, core.Now()})
							return true
						})
					})
					s.leaveEnd = core.Now()
					return
				}
				if s.kind == "iter-cancel-timer" {
					t := time.AfterFunc(time.Duration(r.IntN(1500))*time.Microsecond, func() { cancel() })
					defer t.Stop()
				}
				// leaveBegin for stop/timer-driven cancellation: the must-receive rule needs a stamp taken BEFORE the
				// withdrawal can have begun. For those routes the stamp is taken when the subscriber starts (so it is
				// never in any must-receive set): sound, at the price of not asserting must-receive for them.
				if s.kind == "iter-cancel-timer" {
					s.leaveBegin = s.subRet
				}
				guard("iterate", func() {
					defer func() {
						// a loop body that panics is another way of leaving the iterator early (the panic is the
						// subscriber's own and is recovered here, outside the iterator)
						if pv := recover(); pv != nil && pv != any(errLoopBody) {
							panic(pv)
						}
					}()
					seq(func(v int) bool {
						s.receipts = append(s.receipts, psReceipt{v, core.Now()})
						if len(s.receipts) >= k {
							switch s.kind {
							case "iter-panic":
								if s.leaveBegin == 0 {
									s.leaveBegin = core.Now()
								}
								panic(errLoopBody)
							case "iter":
								if s.leaveBegin == 0 {
									s.leaveBegin = core.Now()
								}
								return false
							case "iter-cancel":
								if s.leaveBegin == 0 {
									s.leaveBegin = core.Now()
								}
								cancel()
							}
						}
						return true
					})
				})
				s.leaveEnd = core.Now()
			}
		}()
	}
	nextID := 0
	mkSub := func(kind string) *psSub {
		s := &psSub{id: nextID, kind: kind}
		nextID++
		h.subs = append(h.subs, s)
		return s
	}
	var sentinel *psSub
	if o.sentinel {
		sentinel = mkSub("sentinel")
		sentinel.sentinel = true
		startSub(sentinel, c.Rng.Uint64())
		core.WaitUntil(5000, func() bool { return ps.Add(0) >= 1 })
	}
	var lateSubs []*psSub
	for i := 0; i < o.subs; i++ {
		s := mkSub(o.kinds[c.Rng.IntN(len(o.kinds))])
		if o.joinLate && c.Rng.IntN(2) == 0 {
			lateSubs = append(lateSubs, s)
		} else {
			startSub(s, c.Rng.Uint64())
		}
	}
	// iterator/stop-driven subscribers that leave because of stopAll: their leaveBegin must be a stamp before the
	// withdrawal; we take it here, just before stop is signalled (see below).
	var sendWG sync.WaitGroup
	var sendMu sync.Mutex
	for sd := 0; sd < o.senders; sd++ {
		sd := sd
		sendWG.Add(1)
		seed := c.Rng.Uint64()
		go func() {
			defer sendWG.Done()
			r := newRand(seed)
			for k := 0; k < o.perSender && !aborted.Load(); k++ {
				v := (sd+1)*100000 + k
				rec := psSend{sender: sd, v: v}
				rec.call = core.Now()
				ok := guard("Send", func() { rec.n = ps.Send(v) })
				rec.ret = core.Now()
				if !ok {
					return
				}
				sendMu.Lock()
				h.sends = append(h.sends, rec)
				sendMu.Unlock()
				if r.IntN(3) == 0 {
					time.Sleep(time.Duration(r.IntN(150)) * time.Microsecond)
				}
			}
		}()
	}
	lateSeeds := make([]uint64, len(lateSubs))
	for i := range lateSeeds {
		lateSeeds[i] = c.Rng.Uint64()
	}
	lateDelays := make([]time.Duration, len(lateSubs))
	for i := range lateDelays {
		lateDelays[i] = time.Duration(c.Rng.IntN(1500)) * time.Microsecond
	}
	var lateWG sync.WaitGroup
	for i, s := range lateSubs {
		i, s := i, s
		lateWG.Add(1)
		go func() {
			defer lateWG.Done()
			time.Sleep(lateDelays[i])
			startSub(s, lateSeeds[i])
		}()
	}
	sendersDone := core.Go(sendWG.Wait)
	if !core.AwaitDone(sendersDone, 30000) {
		h.blocked = "a Send did not return:\n" + core.DumpAll()
		stop()
		return h
	}
	lateWG.Wait()
	// stop-driven leavers: their withdrawal cannot begin before this stamp
	stopStamp := core.Now()
	stop()
	if !core.AwaitDone(core.Go(subWG.Wait), 30000) {
		h.blocked = "a subscriber call (Add/Subscribe/Unsubscribe/Wait/iterator) did not return:\n" + core.DumpAll()
		return h
	}
	for _, s := range h.subs {
		if s.leaveBegin == 0 {
			s.leaveBegin = stopStamp // left because of stop: the withdrawal cannot have begun before stopStamp
		}
	}
	if aborted.Load() {
		return h
	}
	// final accounting: asynchronous AfterFunc unsubscribes may still be running
	fin := -1
	okFin := core.WaitUntil(5000, func() bool {
		if pv := core.Recover(func() { fin = ps.Add(0) }); pv != nil {
			h.panicked("Add(0)", pv)
			return true
		}
		return fin == 0
	})
	_ = okFin
	h.finalAdd = fin
	// the instance is not broken: a fresh subscriber round trip works
	if len(h.panics) == 0 && fin == 0 {
		done := core.Go(func() {
			if pv := core.Recover(func() {
				ps.Add(1)
				got := make(chan int, 1)
				go func() {
					v := <-ps.C()
					ps.Wait()
					got <- v
				}()
				n := ps.Send(424242)
				v := <-got
				ps.Add(-1)
				if n != 1 || v != 424242 {
					h.roundMsg = fmt.Sprintf("round trip: Send returned %d, received %d", n, v)
				} else {
					h.roundOK = true
				}
			}); pv != nil {
				h.roundMsg = fmt.Sprintf("round trip panicked: %v", pv)
			}
		})
		if !core.AwaitDone(done, 10000) {
			h.roundMsg = "round trip blocked"
			h.blocked = "post-scenario round trip blocked:\n" + core.DumpAll()
		}
	}
	return h
}

// ---------------------------------------------------------------------------
// C06 oracle

func (h *psHist) checkDelivery(c *core.Ctx) (pairs int) {
	sendOf := map[int]*psSend{}
	for i := range h.sends {
		sendOf[h.sends[i].v] = &h.sends[i]
	}
	count := map[int]int{}
	for _, s := range h.subs {
		seen := map[int]bool{}
		for _, r := range s.receipts {
			if r.v == 424242 {
				continue
			}
			sd := sendOf[r.v]
			if sd == nil {
				c.Violate("invented-value", "subscription %d (%s) received %d, which no completed Send carried", s.id, s.kind, r.v)
				continue
			}
			if seen[r.v] {
				c.Violate("duplicate-delivery", "subscription %d (%s) received %d twice", s.id, s.kind, r.v)
			}
			seen[r.v] = true
			count[r.v]++
			if s.manualStamp && r.stamp > sd.ret {
				c.Violate("send-returned-before-receipt", "Send(%d) returned (stamp %d) before subscription %d received it (stamp %d)", r.v, sd.ret, s.id, r.stamp)
			}
			if sd.ret < s.subCall {
				c.Violate("late-subscriber-served", "subscription %d was made (call stamp %d) after Send(%d) had returned (stamp %d) but received it", s.id, s.subCall, r.v, sd.ret)
			}
		}
		// must-receive
		for i := range h.sends {
			sd := &h.sends[i]
			if s.subRet != 0 && s.subRet < sd.call && s.leaveBegin > sd.ret && !seen[sd.v] {
				c.Violate("standing-subscriber-missed", "subscription %d (%s) was established (stamp %d) before Send(%d) began (stamp %d) and not withdrawn before it returned (stamp %d, withdrawal began %d) but did not receive it", s.id, s.kind, s.subRet, sd.v, sd.call, sd.ret, s.leaveBegin)
			}
		}
	}
	for i := range h.sends {
		sd := &h.sends[i]
		if count[sd.v] != sd.n {
			c.Violate("receipts-vs-count", "Send(%d) returned %d but the value was received %d times", sd.v, sd.n, count[sd.v])
		}
		if len(h.subs) == 0 && sd.n != 0 {
			c.Violate("send-without-subscribers", "Send(%d) returned %d with nobody subscribed", sd.v, sd.n)
		}
	}
	// order: one global order (sentinel stream), each stream a contiguous sub-run, senders' program order, real time
	var ref *psSub
	for _, s := range h.subs {
		if s.sentinel {
			ref = s
		}
	}
	succ := map[int]int{}
	for _, s := range h.subs {
		for i := 1; i < len(s.receipts); i++ {
			a, b := s.receipts[i-1].v, s.receipts[i].v
			pairs++
			if x, ok := succ[a]; ok && x != b {
				c.Violate("order-disagreement", "subscription %d saw %d followed by %d, another saw it followed by %d", s.id, a, b, x)
			}
			succ[a] = b
		}
	}
	if ref == nil {
		// without a sentinel, streams may skip values (n=0 sends are seen by nobody): only per-stream sender order
		for _, s := range h.subs {
			last := map[int]int{}
			for _, r := range s.receipts {
				if sd := sendOf[r.v]; sd != nil {
					if l, ok := last[sd.sender]; ok && r.v <= l {
						c.Violate("sender-order", "subscription %d received sender %d's %d after %d", s.id, sd.sender, r.v, l)
					}
					last[sd.sender] = r.v
				}
			}
		}
		return
	}
	idx := map[int]int{}
	for i, r := range ref.receipts {
		idx[r.v] = i
	}
	if len(ref.receipts) != len(h.sends) {
		c.Violate("sentinel-missed", "the sentinel subscriber (present for the whole run) received %d of %d messages", len(ref.receipts), len(h.sends))
	}
	for _, s := range h.subs {
		for i := 1; i < len(s.receipts); i++ {
			a, aok := idx[s.receipts[i-1].v]
			b, bok := idx[s.receipts[i].v]
			if aok && bok && b != a+1 {
				c.Violate("gap-in-run", "subscription %d (%s) received message #%d right after #%d", s.id, s.kind, b, a)
			}
		}
	}
	last := map[int]int{}
	for _, r := range ref.receipts {
		if sd := sendOf[r.v]; sd != nil {
			if l, ok := last[sd.sender]; ok && r.v <= l {
				c.Violate("sender-order", "global order has sender %d's %d after %d", sd.sender, r.v, l)
			}
			last[sd.sender] = r.v
		}
	}
	byCall := append([]psSend(nil), h.sends...)
	sort.Slice(byCall, func(i, j int) bool { return byCall[i].call < byCall[j].call })
	byRet := append([]psSend(nil), h.sends...)
	sort.Slice(byRet, func(i, j int) bool { return byRet[i].ret < byRet[j].ret })
	j, maxIdx := 0, -1
	for _, sd := range byCall {
		for j < len(byRet) && byRet[j].ret < sd.call {
			if x, ok := idx[byRet[j].v]; ok && x > maxIdx {
				maxIdx = x
			}
			j++
		}
		if x, ok := idx[sd.v]; ok && x <= maxIdx {
			c.Violate("real-time-order", "Send(%d) was called after another Send had returned but is ordered before it (#%d <= #%d)", sd.v, x, maxIdx)
		}
	}
	return
}

func (h *psHist) summary() map[string]any {
	kinds := map[string]int{}
	rec := 0
	for _, s := range h.subs {
		kinds[s.kind]++
		rec += len(s.receipts)
	}
	zero := 0
	for _, sd := range h.sends {
		if sd.n == 0 {
			zero++
		}
	}
	return map[string]any{"senders": h.opts.senders, "sends": len(h.sends), "sends_returning_0": zero, "subscriptions": kinds, "receipts": rec, "final_count": h.finalAdd, "round_trip_ok": h.roundOK}
}

var errLoopBody = fmt.Errorf("deliberate panic in the subscriber's loop body")

// manualCtx is a minimal, contract-abiding context.Context implementation that is not one of the standard library's.
type manualCtx struct {
	mu   sync.Mutex
	done chan struct{}
	err  error
}

func (m *manualCtx) Deadline() (time.Time, bool) { return time.Time{}, false }
func (m *manualCtx) Done() <-chan struct{}       { return m.done }
func (m *manualCtx) Value(any) any               { return nil }
func (m *manualCtx) Err() error {
	m.mu.Lock()
	defer m.mu.Unlock()
	return m.err
}
func (m *manualCtx) cancel() {
	m.mu.Lock()
	if m.err == nil {
		m.err = context.Canceled
		close(m.done)
	}
	m.mu.Unlock()
}
