package props

import (
	"fmt"
	"sync/atomic"
	"time"

	bigbuff "github.com/joeycumines/go-bigbuff"

	"verif/core"
)

// C06 — ChanPubSub: each message reaches every standing subscriber once, in one order.

func init() {
	core.Register(&core.Property{
		ID: "C06",
		Rule: "1-4 senders sending unique ids, 0-12 subscriptions mixing SubscribeContext iterators (break after k, cancel after k, cancel on a timer, never iterated, cancelled then iterated) and manual Add/C/Wait subscribers (leave after k, on a timer, immediately), joining before or during the run, " +
			"usually with a sentinel manual subscriber present for the whole run (its stream is the global order); seeded delays at the pubsub/caster hook sites; oracle: receipts per value == Send's return value, by distinct subscriptions, manual receipt stamp (taken between receive and Wait) precedes the Send's return stamp, " +
			"must-receive set (subscribed before the Send began, withdrawal not begun before it returned) and must-not set (subscribed after it returned), successor uniqueness, contiguous sub-runs of the sentinel stream, per-sender and real-time order; Send with no subscribers returns 0. " +
			"last-leaves-mid-send: the only k subscribers unsubscribe while a Send is armed (held at caster.add.neg.applied, i.e. counted out but not yet absorbing) while a newcomer subscribes: the newcomer must not receive that Send's value, the Send returns the number actually received, a second Send serves the newcomer. " +
			"non-trivial = at least one subscription joined or left while sends were in flight; distinct = distinct (membership plan, receipt-count vector) signatures",
		Assumptions: []string{
			"the receive-before-Send-returns clause is checked for manual subscribers only (an iterator's stamp can only be taken after Wait returned)",
			"subscribers follow the contract (receive then Wait; unsubscribe promptly when no longer receiving)",
		},
		Families: []core.Family{
			{Name: "dynamic-membership", N: core.TierN(600, 32000), Batch: 25, Run: c06Dynamic},
			{Name: "no-sentinel", N: core.TierN(200, 10000), Batch: 25, Run: c06NoSentinel},
			{Name: "last-leaves-mid-send", N: core.TierN(90, 3600), Batch: 15, Run: c06LastLeaves},
		},
	})
}

func c06Run(c *core.Ctx, sentinel bool) {
	o := psOpts{
		senders:   1 + c.Rng.IntN(4),
		perSender: 5 + c.Rng.IntN(30),
		subs:      c.Rng.IntN(13),
		sentinel:  sentinel,
		kinds:     psSubKinds,
		joinLate:  c.Rng.IntN(3) != 0,
	}
	c.Param("opts", map[string]any{"senders": o.senders, "per_sender": o.perSender, "subs": o.subs, "sentinel": o.sentinel, "join_late": o.joinLate})
	p := c.RandomPerturb(pubsubSites)
	h := runPubSub(c, o)
	p.Stop()
	if h.blocked != "" {
		c.Violate("blocked", "%s", firstLineOf(h.blocked))
		c.SetDump(h.blocked)
		return
	}
	for _, pm := range h.panics {
		c.Violate("panic", "a call panicked although the contract was obeyed: %s", pm)
	}
	pairs := h.checkDelivery(c)
	rec := 0
	partial := 0
	for _, s := range h.subs {
		rec += len(s.receipts)
		if !s.sentinel && len(s.receipts) > 0 && len(s.receipts) < len(h.sends) {
			partial++
		}
	}
	c.Op("send", len(h.sends))
	c.Op("receipt", rec)
	c.Op("subscription", len(h.subs))
	c.Count("order_pairs", pairs)
	c.Count("subscriptions_with_partial_runs", partial)
	if partial > 0 {
		c.Nontrivial()
	}
	sum := h.summary()
	c.Sig(sum)
	if c.Index < 2 {
		c.SetHistory(sum)
	}
}

func c06Dynamic(c *core.Ctx)    { c06Run(c, true) }
func c06NoSentinel(c *core.Ctx) { c06Run(c, false) }

// c06LastLeaves: every standing subscriber withdraws while a Send is armed; the withdrawal is held between being
// counted out and absorbing its copy, and a newcomer subscribes in that gap.
func c06LastLeaves(c *core.Ctx) {
	k := 1 + c.Rng.IntN(3)
	ps := bigbuff.NewChanPubSub(make(chan int))
	p := c.NewPerturb(core.PerturbOpts{P: core.Pick(c.Rng, 0, 0.1)})
	defer p.Stop()
	gate := core.NewGate()
	var armedGate atomic.Bool
	p.On("caster.add.neg.applied", func(int64) {
		if armedGate.Load() {
			gate.Enter(2000)
		}
	})
	var panics atomic.Int64
	var pmsg atomic.Value
	guard := func(what string, fn func()) {
		if pv := core.Recover(fn); pv != nil {
			panics.Add(1)
			pmsg.Store(fmt.Sprintf("%s: %v", what, pv))
		}
	}
	for i := 0; i < k; i++ {
		guard("Add(1)", func() { ps.Add(1) })
	}
	v1, v2 := 71, 72
	if c.Rng.IntN(2) == 0 {
		v1 = 0 // the zero value is a value like any other
	}
	n1, n2 := -1, -1
	send1 := core.Go(func() { guard("Send", func() { n1 = ps.Send(v1) }) })
	window := core.WaitUntil(3000, func() bool { return p.Hits("caster.send.armed") >= 1 })
	armedGate.Store(true)
	leavers := make([]<-chan struct{}, k)
	for i := 0; i < k; i++ {
		leavers[i] = core.Go(func() { guard("Add(-1)", func() { ps.Add(-1) }) })
	}
	window = gate.WaitArrived(3000) && window
	// newcomer: subscribes while the last leaver is counted out but has not absorbed its copy
	var got []int
	joined := make(chan struct{})
	newcomerDone := core.Go(func() {
		guard("newcomer Add(1)", func() { ps.Add(1) })
		close(joined)
		var ch chan int
		guard("C", func() { ch = ps.C() })
		for len(got) < 1 {
			v, _, ok := core.AwaitChan(ch, 8000)
			if !ok {
				return
			}
			guard("Wait", func() { ps.Wait() })
			got = append(got, v)
		}
		guard("newcomer Add(-1)", func() { ps.Add(-1) })
	})
	time.Sleep(time.Duration(200+c.Rng.IntN(800)) * time.Microsecond)
	armedGate.Store(false)
	gate.Disarm()
	desc := fmt.Sprintf("standing=%d all withdraw after the Send armed; window=%v", k, window)
	for _, l := range leavers {
		if !core.AwaitDone(l, 8000) {
			c.Violate("unsubscribe-blocked", "a withdrawal during the Send never returned (its copy was taken by somebody else?); %s", desc)
			c.SetDump(core.DumpAll())
			return
		}
	}
	if !core.AwaitDone(send1, 8000) {
		c.Violate("send-blocked", "Send did not return after every subscriber withdrew; %s", desc)
		c.SetDump(core.DumpAll())
		return
	}
	if !core.AwaitDone(joined, 8000) {
		c.Violate("subscribe-blocked", "the newcomer's Add(1) never returned; %s", desc)
		c.SetDump(core.DumpAll())
		return
	}
	send2 := core.Go(func() { guard("Send2", func() { n2 = ps.Send(v2) }) })
	if !core.AwaitDone(send2, 8000) || !core.AwaitDone(newcomerDone, 8000) {
		c.Violate("send-blocked", "the second Send / the newcomer did not complete; %s", desc)
		c.SetDump(core.DumpAll())
		return
	}
	if panics.Load() > 0 {
		c.Violate("panic", "a call panicked although the contract was obeyed: %v; %s", pmsg.Load(), desc)
		return
	}
	if n1 != 0 {
		c.Violate("receipts-vs-count", "first Send returned %d but nobody received and Wait-ed for it; %s", n1, desc)
	}
	if len(got) != 1 || got[0] != v2 || n2 != 1 {
		c.Violate("late-subscriber-served", "the newcomer received %v (second Send returned %d): it must get only the second value; %s", got, n2, desc)
	}
	if window {
		c.Nontrivial()
		c.R.WinHit++
	} else {
		c.R.WinMissed++
		c.Inconclusive("window not entered")
	}
	c.Op("send", 2)
	c.Op("subscription", k+1)
	c.Sig("lastleaves", k, window)
}
