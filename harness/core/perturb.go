package core

import (
	randv2 "math/rand/v2"
	"runtime"
	"strings"
	"sync"
	"sync/atomic"
	"time"

	bigbuff "github.com/joeycumines/go-bigbuff"
)

// Sites are the hook sites compiled into the library under the `verif` build tag.
var Sites = []string{
	"waitcond.park", "waitcond.cancelled",
	"buffer.getasync.spawned", "buffer.cleanup.timer", "buffer.cleanup.shifted",
	"consumer.get.async", "consumer.close.wait",
	"caster.send.locked", "caster.send.armed", "caster.send.sent", "caster.send.drained", "caster.add.pos.locked", "caster.add.neg.applied",
	"pubsub.send.excl", "pubsub.send.counted", "pubsub.send.armed", "pubsub.send.delivered", "pubsub.unsub.spin", "pubsub.unsub.decided", "pubsub.unsub.counted", "pubsub.iter.received",
	"excl.call.fetched", "excl.run.claimed", "excl.run.replaced", "excl.run.worked",
	"workers.call.queued", "workers.worker.top", "workers.worker.taken",
	"worker.wait.waited", "worker.wait.stopping", "worker.do.returned",
	"channel.get.miss", "notifier.publish.select",
	"chain.primary", "combine.registered", "conflated.spawn",
	"attempt.tick", "attempt.send",
}

// SitesWithPrefix returns the known sites with any of the prefixes.
func SitesWithPrefix(prefixes ...string) []string {
	var out []string
	for _, s := range Sites {
		for _, p := range prefixes {
			if strings.HasPrefix(s, p) {
				out = append(out, s)
				break
			}
		}
	}
	return out
}

type PerturbOpts struct {
	P        float64            // probability of a delay at any site
	Hot      map[string]float64 // per-site probability (overrides P)
	MaxSleep time.Duration      // upper bound of a sleep-kind delay (default 200µs)
	HotSleep time.Duration      // upper bound of a sleep at a hot site (default 2ms)
	NoSleep  bool               // only Gosched / spin kinds
}

// Perturb is a seeded hook handler: counts hits, injects delays, runs per-site callbacks.
type Perturb struct {
	c    *Ctx
	seed uint64
	opts PerturbOpts
	hits map[string]*atomic.Int64
	mu   sync.RWMutex
	on   map[string][]func(hit int64)
	off  atomic.Bool
}

var perturbMu sync.Mutex // one perturbation at a time per process (hook is global)

// NewPerturb installs a handler. Call Stop when the scenario ends.
func (c *Ctx) NewPerturb(o PerturbOpts) *Perturb {
	perturbMu.Lock()
	if o.MaxSleep == 0 {
		o.MaxSleep = 200 * time.Microsecond
	}
	if o.HotSleep == 0 {
		o.HotSleep = 2 * time.Millisecond
	}
	p := &Perturb{c: c, seed: c.Seed, opts: o, hits: map[string]*atomic.Int64{}, on: map[string][]func(int64){}}
	for _, s := range Sites {
		p.hits[s] = new(atomic.Int64)
	}
	bigbuff.VerifSetHook(p.handle)
	return p
}

// RandomPerturb picks p and 1-2 hot sites among the candidates, from the scenario rng.
func (c *Ctx) RandomPerturb(candidates []string) *Perturb {
	o := PerturbOpts{P: Pick(c.Rng, 0, 0.02, 0.1, 0.3), Hot: map[string]float64{}}
	if len(candidates) > 0 && c.Rng.IntN(5) != 0 {
		n := 1 + c.Rng.IntN(2)
		for i := 0; i < n; i++ {
			s := candidates[c.Rng.IntN(len(candidates))]
			o.Hot[s] = Pick(c.Rng, 0.5, 0.8, 1.0)
		}
	}
	o.HotSleep = Pick(c.Rng, 50*time.Microsecond, 500*time.Microsecond, 2*time.Millisecond)
	hot := []string{}
	for s := range o.Hot {
		hot = append(hot, s)
	}
	c.Param("perturb_p", o.P)
	c.Param("hot", strings.Join(sortStrings(hot), ","))
	return c.NewPerturb(o)
}

func sortStrings(s []string) []string {
	for i := 1; i < len(s); i++ {
		for j := i; j > 0 && s[j] < s[j-1]; j-- {
			s[j], s[j-1] = s[j-1], s[j]
		}
	}
	return s
}

// On registers a callback for a site (runs in the library goroutine that reached the site).
func (p *Perturb) On(site string, fn func(hit int64)) {
	p.mu.Lock()
	p.on[site] = append(p.on[site], fn)
	p.mu.Unlock()
}

func (p *Perturb) Hits(site string) int64 {
	if h := p.hits[site]; h != nil {
		return h.Load()
	}
	return 0
}

func (p *Perturb) handle(site string) {
	if p.off.Load() {
		return
	}
	h := p.hits[site]
	if h == nil {
		return
	}
	n := h.Add(1)
	p.mu.RLock()
	cbs := p.on[site]
	p.mu.RUnlock()
	for _, cb := range cbs {
		cb(n)
	}
	prob, hot := p.opts.P, false
	if hp, ok := p.opts.Hot[site]; ok {
		prob, hot = hp, true
	}
	if prob <= 0 {
		return
	}
	d := Mix(p.seed, HashStr(site), uint64(n))
	if float64(d%10000)/10000 >= prob {
		return
	}
	d = Mix(d, 1)
	kind := d % 3
	if p.opts.NoSleep && kind == 2 {
		kind = 0
	}
	switch kind {
	case 0:
		for i := uint64(0); i < 1+(d>>8)%20; i++ {
			runtime.Gosched()
		}
	case 1:
		spin(int(1 + (d>>8)%2000))
	default:
		max := p.opts.MaxSleep
		if hot {
			max = p.opts.HotSleep
		}
		time.Sleep(time.Microsecond + time.Duration((d>>8)%uint64(max)))
	}
}

var spinSink atomic.Int64

func spin(n int) {
	x := 0
	for i := 0; i < n*10; i++ {
		x += i
	}
	if x == -1 {
		spinSink.Add(1)
	}
}

// Stop uninstalls the handler and records hit counts in the result.
func (p *Perturb) Stop() {
	p.off.Store(true)
	bigbuff.VerifSetHook(nil)
	p.c.mu.Lock()
	if p.c.R.HookHits == nil {
		p.c.R.HookHits = map[string]int{}
	}
	for s, h := range p.hits {
		if v := h.Load(); v > 0 {
			p.c.R.HookHits[s] += int(v)
		}
	}
	p.c.mu.Unlock()
	perturbMu.Unlock()
}

// ---------------------------------------------------------------------------
// Gates: hold a library goroutine at a site until the harness releases it (or a bound passes).

type Gate struct {
	arrived chan struct{}
	release chan struct{}
	once    sync.Once
	ronce   sync.Once
	armed   atomic.Bool
	timeout atomic.Bool
}

func NewGate() *Gate {
	g := &Gate{arrived: make(chan struct{}), release: make(chan struct{})}
	g.armed.Store(true)
	return g
}

// Enter is called from a hook callback: the first caller signals arrival and waits for release (max beats).
// Later callers (and callers after Disarm) pass straight through.
func (g *Gate) Enter(maxBeats int) {
	if !g.armed.Load() {
		return
	}
	first := false
	g.once.Do(func() { first = true; close(g.arrived) })
	if !first {
		return
	}
	if !AwaitDone(g.release, maxBeats) {
		g.timeout.Store(true)
	}
}

func (g *Gate) Arrived() <-chan struct{} { return g.arrived }
func (g *Gate) Release()                 { g.ronce.Do(func() { close(g.release) }) }
func (g *Gate) Disarm()                  { g.armed.Store(false); g.Release() }
func (g *Gate) TimedOut() bool           { return g.timeout.Load() }

// WaitArrived waits for the gate to be entered.
func (g *Gate) WaitArrived(beats int) bool { return AwaitDone(g.arrived, beats) }

// CallerHas reports whether the calling goroutine's stack contains a function whose name contains sub.
func CallerHas(sub string) bool {
	var pcs [48]uintptr
	n := runtime.Callers(2, pcs[:])
	frames := runtime.CallersFrames(pcs[:n])
	for {
		f, more := frames.Next()
		if strings.Contains(f.Function, sub) {
			return true
		}
		if !more {
			return false
		}
	}
}

// ---------------------------------------------------------------------------
// Race mode: a handler with no synchronisation of its own (no atomics, no locks).

// InstallRaceHook installs a handler using only Gosched/Sleep and the runtime's per-thread PRNG.
func InstallRaceHook(p float64) {
	bigbuff.VerifSetHook(func(site string) {
		if randv2.Float64() >= p {
			return
		}
		switch randv2.IntN(3) {
		case 0:
			runtime.Gosched()
		case 1:
			for i := 0; i < 1+randv2.IntN(10); i++ {
				runtime.Gosched()
			}
		default:
			time.Sleep(time.Duration(1+randv2.IntN(100)) * time.Microsecond)
		}
	})
}

func UninstallHook() { bigbuff.VerifSetHook(nil) }
