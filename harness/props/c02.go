package props

import (
	"context"
	"errors"
	"fmt"
	"runtime"
	"sync"
	"sync/atomic"
	"time"

	bigbuff "github.com/joeycumines/go-bigbuff"

	"verif/core"
)

// C02 — Buffer consumer: Commit/Rollback give transactional at-least-once consumption; Range semantics.

func init() {
	core.Register(&core.Property{
		ID: "C02",
		Rule: "long: consumers driven by a position model (committed, delta) with random Get/Commit/Rollback incl. multi-value uncommitted windows and partial re-reads, while other consumers commit and the cleaner shifts underneath; " +
			"short: 2-5 goroutines sharing consumers, checked by porcupine against the sequential model; seq-exhaustive: every sequence up to length L over {Put1,Put2,New,Get/Commit/Rollback/Close on c0,Get/Commit on c1} run against the model (complete for L<=4 quick, L<=5 thorough); " +
			"range: package Range through a recording/fault-injecting Consumer decorator (callback false/panic, Get error, Commit error at every step) and Buffer.Range at quiescence and against concurrent Puts. " +
			"resolve-while-closing: Buffer.Close is waiting for a consumer's uncommitted reads; Commit / Rollback, called with those reads pending, still succeed and let the Close complete. non-trivial = at least one rollback with a re-read or one injected fault was exercised; distinct = distinct traces",
		Assumptions: []string{
			"Range runs with exclusive use of its consumer (Buffer.Range racing a Get by another goroutine on the same consumer is out of scope, DESIGN.md §6)",
			"a commit-before-callback is observed through the decorator's event order (package Range) and through VerifSnapshot inside the callback (Buffer.Range)",
		},
		Families: []core.Family{
			{Name: "long-txn", N: core.TierN(100, 4000), Batch: 4, Run: c02Long},
			{Name: "short-shared-porcupine", N: core.TierN(1000, 60000), Batch: 50, Run: c02Short},
			{Name: "seq-exhaustive", N: core.TierN(9, 81), Batch: 3, Run: c02SeqExhaustive},
			{Name: "range-pkg", N: core.TierN(400, 16000), Batch: 30, Run: c02RangePkg},
			{Name: "range-buffer", N: core.TierN(300, 12000), Batch: 20, Run: c02RangeBuffer},
			{Name: "range-buffer-faults", N: core.TierN(150, 6000), Batch: 25, Run: c02RangeBufferFaults},
			{Name: "resolve-while-closing", N: core.TierN(60, 2400), Batch: 20, Run: c02ResolveWhileClosing},
		},
	})
}

func c02Long(c *core.Ctx) {
	o := longOpts{
		producers: 1 + c.Rng.IntN(3),
		batches:   40 + c.Rng.IntN(120),
		maxBatch:  4,
		consumers: 2 + c.Rng.IntN(5),
		ref:       c.Rng.IntN(4) != 0,
		cooldown:  pickCooldown(c),
	}
	c.Param("opts", map[string]any{"producers": o.producers, "batches": o.batches, "consumers": o.consumers, "ref": o.ref, "cooldown": o.cooldown.String()})
	p := c.RandomPerturb(bufferSites)
	h := runBufLong(c, o)
	p.Stop()
	pairs, src := h.checkOrder()
	h.report(c, "txn", "order", "progress")
	reads := 0
	for _, s := range h.sessions {
		reads += len(s.vals)
	}
	c.Op("put", len(h.puts))
	c.Op("get_distinct_positions", reads)
	c.Count("chain_pairs", pairs)
	c.Count("evicted", int(h.shifts))
	if len(h.sessions) > 1 {
		c.Nontrivial()
	}
	sum := h.summary()
	sum["index_source"] = src
	c.Sig(sum)
	if c.Index < 1 {
		c.SetHistory(sum)
	}
}

func c02Short(c *core.Ctx) {
	cs := cleanerSpec{}
	o := bufShortOpts{
		clients:    2 + c.Rng.IntN(4),
		opsPer:     6 + c.Rng.IntN(6),
		cs:         cs,
		cooldown:   core.Pick(c.Rng, 0, time.Microsecond, 50*time.Microsecond),
		weights:    [9]int{20, 3, 38, 14, 12, 3, 2, 2, 6},
		shareCons:  true,
		preConsume: 1 + c.Rng.IntN(2),
	}
	c.Param("opts", map[string]any{"clients": o.clients, "ops_per": o.opsPer, "cooldown": o.cooldown.String()})
	p := c.RandomPerturb(bufferSites)
	ops, hung := runBufShort(c, o)
	p.Stop()
	if hung != "" {
		c.Violate("hang", "%s", firstLineOf(hung))
		c.SetDump(hung)
		return
	}
	checkBufShort(c, ops, cs, "")
	if c.Index < 1 && !c.Violated() {
		c.SetHistory(describeHistory(ops, bufferModel(cs).DescribeOperation, 40))
	}
}

// c02SeqExhaustive enumerates every operation sequence up to length L over a 9-letter alphabet; scenario index
// selects the first one (quick) or first two (thorough) letters, so that the family as a whole is complete.
func c02SeqExhaustive(c *core.Ctx) {
	alphabet := []seqOp{
		{Kind: bPut, N: 1}, {Kind: bPut, N: 2}, {Kind: bNewConsumer},
		{Kind: bGet, Cons: 0}, {Kind: bCommit, Cons: 0}, {Kind: bRollback, Cons: 0}, {Kind: bCloseCons, Cons: 0},
		{Kind: bGet, Cons: 1}, {Kind: bCommit, Cons: 1},
	}
	L := 4
	var prefix []seqOp
	if c.Thorough() {
		L = 5
		prefix = []seqOp{alphabet[c.Index/9], alphabet[c.Index%9]}
	} else {
		prefix = []seqOp{alphabet[c.Index]}
	}
	// every sequence starts with NewConsumer so that c0 exists (sequences without a consumer are covered by the
	// prefix letters themselves being applied to an unknown consumer: skipped by the runner)
	n, steps := 0, 0
	var rec func(seq []seqOp)
	rec = func(seq []seqOp) {
		if len(seq) > 0 {
			full := append([]seqOp{{Kind: bNewConsumer}}, seq...)
			res := runBufSeq(cleanerSpec{}, full, 3000)
			n++
			steps += res.steps
			if res.mismatch != "" {
				reportSeq(c, cleanerSpec{}, full, res)
			}
			if res.lagging {
				c.Count("lagging", 1)
			}
		}
		if len(seq) == L {
			return
		}
		for _, a := range alphabet {
			rec(append(append([]seqOp(nil), seq...), a))
		}
	}
	rec(prefix)
	c.Op("seq_step", steps)
	c.Count("sequences", n)
	c.ExhaustiveFamily(fmt.Sprintf("all op sequences of length<=%d over a 9-letter alphabet (after an initial NewConsumer)", L), n)
	c.Nontrivial()
	c.Sig("seq-exh", c.Index, n)
}

// ---------------------------------------------------------------------------
// Range

// recCons decorates a Consumer: records the order of calls and injects faults.
type recCons struct {
	bigbuff.Consumer
	mu        sync.Mutex
	events    []string
	gets      int
	commits   int
	failGetAt int // fail the k-th Get (1-based) without calling through; 0 = never
	failComAt int // fail the k-th Commit without calling through
}

var errInjected = errors.New("injected fault")

func (r *recCons) ev(s string) { r.mu.Lock(); r.events = append(r.events, s); r.mu.Unlock() }

func (r *recCons) Get(ctx context.Context) (interface{}, error) {
	r.gets++
	if r.failGetAt == r.gets {
		r.ev("get!err")
		return nil, errInjected
	}
	v, err := r.Consumer.Get(ctx)
	if err != nil {
		r.ev("get:err")
	} else {
		r.ev(fmt.Sprintf("get:%v", v))
	}
	return v, err
}

func (r *recCons) Commit() error {
	r.commits++
	if r.failComAt == r.commits {
		r.ev("commit!err")
		return errInjected
	}
	err := r.Consumer.Commit()
	if err != nil {
		r.ev("commit:err")
	} else {
		r.ev("commit")
	}
	return err
}

func (r *recCons) Rollback() error {
	err := r.Consumer.Rollback()
	if err != nil {
		r.ev("rollback:err")
	} else {
		r.ev("rollback")
	}
	return err
}

func c02RangePkg(c *core.Ctx) {
	b := newBuffer(cleanerSpec{}, core.Pick(c.Rng, 0, 50*time.Microsecond), nil)
	defer b.Close()
	cons, err := b.NewConsumer()
	if err != nil {
		c.Violate("newconsumer-error", "%v", err)
		return
	}
	n := 2 + c.Rng.IntN(8)
	vals := make([]interface{}, n)
	for i := range vals {
		vals[i] = 100 + i
	}
	if err := b.Put(context.Background(), vals...); err != nil {
		c.Violate("put-error", "%v", err)
		return
	}
	// optionally pre-read and commit a few so the range does not start at the head
	pre := c.Rng.IntN(n)
	for i := 0; i < pre; i++ {
		cons.Get(context.Background())
	}
	// ... or, in a third of the scenarios, pre-read and leave them uncommitted: whatever Range rolls back then
	// includes them (the next read starts at the oldest uncommitted value), whatever it commits includes them too
	pendingBefore := 0
	if pre > 0 && c.Rng.IntN(3) == 0 {
		pendingBefore = pre
	} else if pre > 0 {
		cons.Commit()
	}
	mode := core.Pick(c.Rng, "false", "panic", "geterr", "commiterr", "cancel", "drain-then-cancel", "goexit")
	k := c.Rng.IntN(n - pre) // the step (0-based range index) at which the fault happens
	rc := &recCons{Consumer: cons}
	switch mode {
	case "geterr":
		rc.failGetAt = k + 1
	case "commiterr":
		rc.failComAt = k + 1
	}
	ctx, cancel := context.WithCancel(context.Background())
	defer cancel()
	var visited []int
	var idxs []int
	fn := func(index int, value interface{}) bool {
		rc.ev(fmt.Sprintf("cb-enter:%v", value))
		defer rc.ev(fmt.Sprintf("cb-exit:%v", value))
		v, _ := value.(int)
		visited = append(visited, v)
		idxs = append(idxs, index)
		if index == k {
			switch mode {
			case "false":
				return false
			case "panic":
				panic("deliberate callback panic")
			case "goexit":
				// the callback never returns: its goroutine exits (what t.FailNow / t.Fatal do inside a callback)
				runtime.Goexit()
			case "cancel":
				cancel()
			}
		}
		if mode == "drain-then-cancel" && index == n-pre-1 {
			// the last available value: cancel so that the following Get fails instead of blocking
			cancel()
		}
		return true
	}
	var rerr error
	var pv any
	done := core.Go(func() {
		pv = core.Recover(func() { rerr = bigbuff.Range(ctx, rc, fn) })
	})
	if !core.AwaitDone(done, 10000) {
		c.Violate("range-hang", "Range did not return (mode %s, k=%d, n=%d, pre=%d)", mode, k, n, pre)
		c.SetDump(core.DumpAll())
		cancel()
		return
	}
	desc := fmt.Sprintf("mode=%s k=%d n=%d pre=%d (left uncommitted: %d) events=%v", mode, k, n, pre, pendingBefore, rc.events)
	// 1. the callback's indices are 0,1,2,... and values are the consumer's stream from its position
	for i, v := range visited {
		if idxs[i] != i {
			c.Violate("range-index", "callback #%d got index %d; %s", i, idxs[i], desc)
		}
		if v != 100+pre+i {
			c.Violate("range-value", "callback #%d got value %d, want %d; %s", i, v, 100+pre+i, desc)
		}
	}
	// 2. event order: every value's commit comes after its callback returned, never before it or during it
	last := ""
	for _, e := range rc.events {
		if e == "commit" || e == "commit!err" || e == "commit:err" {
			if len(last) < 8 || last[:8] != "cb-exit:" {
				c.Violate("commit-before-callback-returned", "Commit was called after %q, not right after the callback returned; %s", last, desc)
			}
		}
		last = e
	}
	// 3. what the next read returns
	wantNext := -1 // -1: nothing further available
	wantPanic := false
	wantErr := ""
	switch mode {
	case "false":
		wantNext = 100 + pre + k + 1 // the value was committed, Range stops
	case "panic":
		wantNext = 100 + pre + k
		wantPanic = true
	case "goexit":
		wantNext = 100 + pre + k // never committed (its callback did not return); first in line for the next read
	case "geterr":
		wantNext = 100 + pre + k
		wantErr = "injected"
	case "commiterr":
		wantNext = 100 + pre + k
		wantErr = "injected"
	case "cancel":
		wantNext = 100 + pre + k + 1 // cancellation is noticed at the next loop head, after the commit
		wantErr = "context"
	case "drain-then-cancel":
		wantNext = 100 + n
		wantErr = "context"
	}
	if pendingBefore > 0 && k == 0 && (mode == "panic" || mode == "geterr" || mode == "commiterr" || mode == "goexit") {
		wantNext = 100 // the failure came before Range's first commit: the caller's own uncommitted reads are rolled back with it
	}
	if wantNext >= 100+n {
		wantNext = -1
	}
	if wantPanic != (pv != nil) {
		c.Violate("range-panic", "panic=%v, want panic=%v; %s", pv, wantPanic, desc)
	}
	if (wantErr == "") != (rerr == nil) {
		c.Violate("range-error", "Range returned %v, want error class %q; %s", rerr, wantErr, desc)
	}
	gctx, gcancel := context.WithTimeout(context.Background(), 2*time.Millisecond)
	if wantNext >= 0 {
		gcancel()
		gctx, gcancel = context.WithCancel(context.Background())
		time.AfterFunc(5*time.Second, gcancel)
	}
	v, gerr := cons.Get(gctx)
	gcancel()
	if wantNext >= 0 {
		if gerr != nil || v != wantNext {
			c.Violate("range-next-read", "after Range the next Get returned (%v, %v), want %d (the in-flight value must be first in line after a failure, the following one after success); %s", v, gerr, wantNext, desc)
		}
	} else if gerr == nil {
		c.Violate("range-next-read", "after Range the next Get returned %v although everything was consumed; %s", v, desc)
	}
	_ = cons.Rollback()
	c.Op("range_callback", len(visited))
	c.Op("range", 1)
	c.Count("mode_"+mode, 1)
	c.Nontrivial()
	c.Sig(mode, k, n, pre, pendingBefore > 0, rc.events)
	if c.Index < 2 {
		c.SetHistory(desc)
	}
}

func c02RangeBuffer(c *core.Ctx) {
	cooldown := core.Pick(c.Rng, 0, 50*time.Microsecond, time.Millisecond)
	b := newBuffer(cleanerSpec{}, cooldown, nil)
	defer b.Close()
	cons, err := b.NewConsumer()
	if err != nil {
		c.Violate("newconsumer-error", "%v", err)
		return
	}
	defer cons.Rollback()
	concurrent := c.Rng.IntN(2) == 0
	n := c.Rng.IntN(12)
	next := 0
	put := func(k int) {
		vals := make([]interface{}, k)
		for i := range vals {
			vals[i] = next
			next++
		}
		b.Put(context.Background(), vals...)
	}
	put(n)
	pre := 0
	if n > 0 {
		pre = c.Rng.IntN(n + 1)
	}
	for i := 0; i < pre; i++ {
		cons.Get(context.Background())
	}
	pendingBefore := 0
	switch {
	case pre > 0 && c.Rng.IntN(3) == 0:
		cons.Commit()
	case pre > 0 && c.Rng.IntN(2) == 0:
		// the reads made before Range are left uncommitted: Range goes on from the consumer's read position (its
		// first commit makes them permanent together with the first value it visits)
		pendingBefore = pre
	case pre > 0:
		cons.Rollback()
		pre = 0
	}
	p := c.RandomPerturb(bufferSites)
	defer p.Stop()
	var putReturned, putCalled atomic.Int64
	putReturned.Store(int64(n))
	putCalled.Store(int64(n))
	stop := make(chan struct{})
	var wg sync.WaitGroup
	if concurrent {
		wg.Add(1)
		seed := c.Rng.Uint64()
		go func() {
			defer wg.Done()
			r := newRand(seed)
			for i := 0; i < 200; i++ {
				select {
				case <-stop:
					return
				default:
				}
				putCalled.Add(1)
				b.Put(context.Background(), int(putCalled.Load())-1)
				putReturned.Add(1)
				if r.IntN(3) == 0 {
					time.Sleep(time.Duration(r.IntN(50)) * time.Microsecond)
				}
			}
		}()
	}
	before := int(putReturned.Load())
	var visited, idxs []int
	commitEarly := false
	// the callback itself puts more values during some of its runs (incl. the run for the value that was last when
	// it started): they are available when Range reaches the end of the buffer, so they must be visited too
	extraRuns := 0
	if !concurrent {
		extraRuns = c.Rng.IntN(4)
	}
	extraPut := 0
	rctx, rcancel := context.WithCancel(context.Background())
	defer rcancel()
	var rerr error
	done := core.Go(func() {
		rerr = b.Range(rctx, cons, func(index int, value interface{}) bool {
			v, _ := value.(int)
			visited = append(visited, v)
			idxs = append(idxs, index)
			// the value being visited must not be committed yet: the only consumer's committed offset is still v
			_, _, committed := b.VerifSnapshot()
			if len(committed) == 1 && committed[0] > v {
				commitEarly = true
			}
			if d, ok := b.Diff(cons); extraPut < extraRuns && ok && d == 0 {
				// this is the last value at the moment: put another one while its callback is running
				b.Put(context.Background(), next)
				next++
				extraPut++
				putReturned.Add(1)
				putCalled.Add(1)
			}
			return true
		})
	})
	ok := core.AwaitDone(done, 10000)
	after := int(putCalled.Load())
	close(stop)
	if !ok {
		c.Violate("buffer-range-blocked", "Buffer.Range did not return (n=%d pre=%d, of which left uncommitted %d, concurrent=%v visited=%d)", n, pre, pendingBefore, concurrent, len(visited))
		c.SetDump(core.DumpAll())
		rcancel()
		core.AwaitDone(done, 10000)
		wg.Wait()
		return
	}
	wg.Wait()
	desc := fmt.Sprintf("n=%d pre=%d (left uncommitted: %d) concurrent=%v visited=%v err=%v", n, pre, pendingBefore, concurrent, visited, rerr)
	if rerr != nil {
		c.Violate("buffer-range-error", "Buffer.Range returned %v; %s", rerr, desc)
	}
	if commitEarly {
		c.Violate("commit-before-callback-returned", "a value was already committed while its callback was running; %s", desc)
	}
	for i, v := range visited {
		if idxs[i] != i || v != pre+i {
			c.Violate("buffer-range-run", "callback #%d got (index %d, value %d), want (%d, %d); %s", i, idxs[i], v, i, pre+i, desc)
			break
		}
	}
	// visits at least everything whose Put had returned before Range was called, nothing put after it returned
	if len(visited) < before-pre {
		c.Violate("buffer-range-short", "Buffer.Range visited %d values but %d were available before it was called; %s", len(visited), before-pre, desc)
	}
	if len(visited) > after-pre {
		c.Violate("buffer-range-overrun", "Buffer.Range visited %d values but only %d had been put when it returned; %s", len(visited), after-pre, desc)
	}
	if !concurrent && len(visited) != n-pre+extraPut {
		c.Violate("buffer-range-exact", "Buffer.Range visited %d values, want exactly %d (%d available at the call + %d put by the callback while the last value was being visited); %s", len(visited), n-pre+extraPut, n-pre, extraPut, desc)
	}
	// everything visited is committed: the next read is the next value (if any)
	if d, ok := b.Diff(cons); !ok || d != int(putReturned.Load())-pre-len(visited) {
		c.Violate("buffer-range-position", "after Buffer.Range Diff=(%d,%v), want %d; %s", d, ok, int(putReturned.Load())-pre-len(visited), desc)
	}
	if err := cons.Commit(); err == nil && !(pendingBefore > 0 && len(visited) == 0) {
		// (reads the caller itself left uncommitted stay so when Range had nothing to visit)
		c.Violate("buffer-range-uncommitted", "after Buffer.Range a Commit succeeded: something was left uncommitted; %s", desc)
	}
	c.Op("range_callback", len(visited))
	c.Op("range", 1)
	if len(visited) > 0 {
		c.Nontrivial()
	}
	c.Sig(n, pre, concurrent, len(visited), extraPut)
	if c.Index < 1 {
		c.SetHistory(desc)
	}
}

// c02RangeBufferFaults: Buffer.Range whose callback returns false / panics / cancels the context at step k: what is
// committed and what the next read returns.
func c02RangeBufferFaults(c *core.Ctx) {
	b := newBuffer(cleanerSpec{}, core.Pick(c.Rng, 0, 50*time.Microsecond), nil)
	defer b.Close()
	cons, err := b.NewConsumer()
	if err != nil {
		c.Violate("newconsumer-error", "%v", err)
		return
	}
	defer cons.Rollback()
	n := 1 + c.Rng.IntN(8)
	vals := make([]interface{}, n)
	for i := range vals {
		vals[i] = i
	}
	b.Put(context.Background(), vals...)
	mode := core.Pick(c.Rng, "false", "panic", "cancel")
	k := c.Rng.IntN(n)
	ctx, cancel := context.WithCancel(context.Background())
	defer cancel()
	var visited []int
	var rerr error
	var pv any
	done := core.Go(func() {
		pv = core.Recover(func() {
			rerr = b.Range(ctx, cons, func(index int, value interface{}) bool {
				v, _ := value.(int)
				visited = append(visited, v)
				if index == k {
					switch mode {
					case "false":
						return false
					case "panic":
						panic("deliberate callback panic")
					case "cancel":
						cancel()
					}
				}
				return true
			})
		})
	})
	desc := fmt.Sprintf("Buffer.Range n=%d mode=%s k=%d", n, mode, k)
	if !core.AwaitDone(done, 10000) {
		c.Violate("buffer-range-blocked", "%s did not return", desc)
		c.SetDump(core.DumpAll())
		return
	}
	desc += fmt.Sprintf(" visited=%v err=%v panic=%v", visited, rerr, pv)
	wantVisited := k + 1
	wantNext := k + 1 // false and cancel: value k is committed, Range stops
	switch mode {
	case "panic":
		wantNext = k // the in-flight value was rolled back
		if pv == nil {
			c.Violate("range-panic", "the callback's panic did not propagate; %s", desc)
		}
	case "cancel":
		if k < n-1 && rerr == nil {
			c.Violate("range-error", "the context was cancelled mid-range but Range returned nil; %s", desc)
		}
	case "false":
		if rerr != nil {
			c.Violate("range-error", "Range returned %v after the callback returned false; %s", rerr, desc)
		}
	}
	if mode != "panic" && pv != nil {
		c.Violate("range-panic", "unexpected panic; %s", desc)
	}
	if len(visited) != wantVisited {
		c.Violate("buffer-range-run", "visited %d values, want %d; %s", len(visited), wantVisited, desc)
	}
	if d, ok := b.Diff(cons); !ok || d != n-wantNext {
		c.Violate("buffer-range-position", "after Range Diff=(%d,%v), want %d (next read must be value %d); %s", d, ok, n-wantNext, wantNext, desc)
	}
	if wantNext < n {
		gctx, gcancel := context.WithTimeout(context.Background(), 5*time.Second)
		v, gerr := cons.Get(gctx)
		gcancel()
		if gerr != nil || v != wantNext {
			c.Violate("range-next-read", "after Range the next Get returned (%v, %v), want %d; %s", v, gerr, wantNext, desc)
		}
	}
	c.Op("range", 1)
	c.Op("range_callback", len(visited))
	c.Nontrivial()
	c.Sig("bufrangefault", n, mode, k)
}

// c02ResolveWhileClosing: Buffer.Close (or the cancellation of the buffer's context) is waiting for a consumer's
// uncommitted reads to be resolved. Resolving them is exactly what Commit and Rollback are for: with reads pending
// both must still succeed (and only then does Close complete).
func c02ResolveWhileClosing(c *core.Ctx) {
	b := newBuffer(cleanerSpec{}, core.Pick(c.Rng, 0, 200*time.Microsecond), nil)
	cons, err := b.NewConsumer()
	if err != nil {
		c.Violate("newconsumer-error", "%v", err)
		return
	}
	n := 1 + c.Rng.IntN(5)
	for i := 0; i < n; i++ {
		b.Put(context.Background(), i)
	}
	k := 1 + c.Rng.IntN(n)
	for i := 0; i < k; i++ {
		if _, err := cons.Get(context.Background()); err != nil {
			c.Violate("get-error", "%v", err)
			return
		}
	}
	action := core.Pick(c.Rng, "commit", "commit", "rollback")
	closed := core.Go(func() { b.Close() })
	// the close is under way once Put is refused
	core.WaitUntil(3000, func() bool { return b.Put(context.Background()) != nil })
	time.Sleep(time.Duration(c.Rng.IntN(300)) * time.Microsecond)
	var rerr error
	if !core.AwaitDone(core.Go(func() {
		if action == "commit" {
			rerr = cons.Commit()
		} else {
			rerr = cons.Rollback()
		}
	}), 10000) {
		c.Violate("resolve-blocked", "%s with %d reads pending did not return while Buffer.Close was waiting for it", action, k)
		c.SetDump(core.DumpAll())
		return
	}
	if rerr != nil {
		c.Violate("resolve-refused", "%s with %d reads pending returned %v while Buffer.Close was waiting for exactly that (reads pending: the call must succeed)", action, k, rerr)
		cons.Rollback()
	}
	if !core.AwaitDone(closed, 10000) {
		c.Violate("close-blocked", "Buffer.Close did not return after the pending reads were resolved by %s (error %v)", action, rerr)
		c.SetDump(core.DumpAll())
		return
	}
	// nothing pending any more: both calls now report an error and change nothing
	if cons.Commit() == nil || cons.Rollback() == nil {
		c.Violate("resolve-twice", "Commit/Rollback succeeded with nothing pending after the close")
	}
	c.Op("get", k)
	c.Op("resolve", 1)
	c.Nontrivial()
	c.Sig("resolve-while-closing", n, k, action)
}
