#!/bin/bash
# Runs the repository's stable baseline (guard OFF) and compares with /root/.vp/BASELINE.json.
# usage: tools/baseline.sh [repo_dir]
export GOFLAGS=-mod=mod GOPROXY=off GOSUMDB=off GOTOOLCHAIN=local
REPO=${1:-/repo}
OUT=$(mktemp)
trap 'rm -f "$OUT"' EXIT
(cd "$REPO" && go test -mod=mod -json -vet=off -count=1 -timeout 25m ./... >"$OUT" 2>&1)
python3 - "$OUT" <<'PY'
import json,sys
res={}
for line in open(sys.argv[1]):
    try: e=json.loads(line)
    except Exception: continue
    if e.get('Test') and e.get('Action') in ('pass','fail','skip'):
        res[e['Package']+'::'+e['Test']]=e['Action']
base=json.load(open('/root/.vp/BASELINE.json'))
bad=[t for t in base['stable_pass'] if res.get(t)!='pass']
print("stable_pass=%d passed=%d not_passing=%d"%(len(base['stable_pass']),len(base['stable_pass'])-len(bad),len(bad)))
for t in bad: print("NOT PASSING:",t,res.get(t))
sys.exit(1 if bad else 0)
PY
