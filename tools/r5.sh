#!/bin/bash
# Dev helper: stash a sub-agent's results from its scratch worktree into seeded/_incoming and run the property's quick check against each.
# usage: tools/r5.sh <Cxx> [round-prefix wt5] [numbers "9 10"]
id=$1; WT=${2:-wt5}; NUMS=${3:-"9 10"}
V=$(cd "$(dirname "$0")/.." && pwd); cd "$V"
for n in $NUMS; do
  [ -f /tmp/$WT-$id/mutant$n.diff ] || continue
  mkdir -p seeded/_incoming/$id-m$n
  cp /tmp/$WT-$id/mutant$n.diff seeded/_incoming/$id-m$n/patch.diff
  cp /tmp/$WT-$id/zz_demo_${n}_test.go seeded/_incoming/$id-m$n/
done
git -C /repo worktree remove --force /tmp/$WT-$id 2>/dev/null
for n in $NUMS; do
  [ -f seeded/_incoming/$id-m$n/patch.diff ] || continue
  echo "## $id-m$n"
  timeout 1500 tools/mut.sh seeded/_incoming/$id-m$n/patch.diff $id quick 1 2>&1 | grep -v '^  family' | grep -v KNOWN | cut -c1-300 | tail -3
done
