package props

import (
	"context"
	"fmt"
	"sync/atomic"
	"time"

	bigbuff "github.com/joeycumines/go-bigbuff"

	"verif/core"
)

// C20 — LinearAttempt: at most count values, first immediately, always closed.

func init() {
	core.Register(&core.Property{
		ID: "C20",
		Rule: "count in {1,2,3,7,50}, rate in {100ns,1us,100us,1ms,5ms}, receiver prompt / slow (sleeps a few ticks per receive) / absent until after the cancellation, context WithCancel or WithTimeout, cancellation before the call / after the first value / at a random instant / racing a tick (producer held at attempt.tick or attempt.send while cancel() runs) / never; " +
			"oracle (counts and order only): a value is buffered at return (live context), closed and empty at return (context cancelled beforehand), cap==1 and len<=1 at every sample, total <= count, timestamps non-decreasing, channel closed after the count-th value and within the bound after cancellation, " +
			"at most 2 values obtained after the receiver observed the cancellation (cancel() returned / ctx.Err()!=nil), no goroutine with a LinearAttempt frame left after the close was observed. " +
			"fast-ticks-under-load: 16-48 concurrent attempts with rate 100ns-1us, huge count, prompt or slightly slow receivers and a deadline context, in a deliberately oversubscribed process (ticks are always ready next to Done; tick times jitter). " +
			"err-only-context: a Context whose Err() reports the cancellation but whose Done() channel never closes (the shape the repository's own example uses; the post-tick guard exists for it): cancelled beforehand -> closed and empty at return; cancelled later with the receiver absent or gone after k values -> the producer exits within the bound WITHOUT the channel being drained, then at most 2 values are left and the channel is closed. " +
			"non-trivial = the cancellation landed while the producer goroutine was alive (or the directed window was entered); distinct = distinct (count, rate, receiver, cancellation, outcome) signatures",
		Assumptions: []string{"no wall-clock comparison is used: 'immediately' = available by non-blocking receive at return, 'promptly' = within 5000 heartbeats + rate"},
		Families: []core.Family{
			{Name: "matrix", N: core.TierN(600, 24000), Batch: 30, Run: c20Matrix},
			{Name: "directed-tick-race", N: core.TierN(120, 4800), Batch: 20, Run: c20Directed},
			{Name: "directed-full-buffer", N: core.TierN(60, 2400), Batch: 20, Run: c20FullBuffer},
			{Name: "fast-ticks-under-load", N: core.TierN(8, 480), Batch: 2, Run: c20FastTicks},
			{Name: "err-only-context", N: core.TierN(90, 3600), Batch: 30, Run: c20ErrOnly},
		},
	})
}

type c20Obs struct {
	total          int
	afterObs       int // values obtained after the receiver observed the cancellation
	decreasing     bool
	closed         bool
	maxLen         int
	firstReady     bool
	closedAtReturn bool
}

func c20Matrix(c *core.Ctx) {
	count := core.Pick(c.Rng, 1, 2, 3, 7, 50)
	rate := core.Pick(c.Rng, 100*time.Nanosecond, time.Microsecond, 100*time.Microsecond, time.Millisecond, 5*time.Millisecond)
	receiver := core.Pick(c.Rng, "prompt", "slow", "absent")
	cancelMode := core.Pick(c.Rng, "before", "after-first", "random", "never", "deadline", "deadline")
	if cancelMode == "never" && rate >= time.Millisecond && count > 7 {
		count = 7 // keep the run short
	}
	p := c.NewPerturb(core.PerturbOpts{P: core.Pick(c.Rng, 0, 0.1, 0.3)})
	defer p.Stop()
	var ctx context.Context
	var cancel context.CancelFunc
	if cancelMode == "deadline" {
		// (a deadline a fraction of a tick, a few ticks or many ticks away)
		ctx, cancel = context.WithTimeout(context.Background(), core.Pick(c.Rng, time.Duration(200+c.Rng.IntN(1500))*time.Microsecond, time.Duration(5+c.Rng.IntN(25))*time.Millisecond))
	} else {
		ctx, cancel = context.WithCancel(context.Background())
	}
	defer cancel()
	var cancelled atomic.Bool // set after cancel() returned
	doCancel := func() { cancel(); cancelled.Store(true) }
	if cancelMode == "before" {
		doCancel()
	}
	desc := fmt.Sprintf("count=%d rate=%s receiver=%s cancel=%s", count, rate, receiver, cancelMode)
	ch := bigbuff.LinearAttempt(ctx, rate, count)
	var o c20Obs
	if cap(ch) != 1 {
		c.Violate("capacity", "cap(ch)=%d, want 1; %s", cap(ch), desc)
	}
	if cancelMode == "before" {
		select {
		case v, ok := <-ch:
			if ok {
				c.Violate("value-after-precancel", "context was cancelled beforehand but the channel yielded %v; %s", v, desc)
			} else {
				o.closedAtReturn = true
			}
		default:
			c.Violate("not-closed-at-return", "context was cancelled beforehand but the channel is not closed at return; %s", desc)
		}
		c.Op("attempt", 1)
		c.Sig(desc, "preclosed")
		return
	}
	if len(ch) != 1 && ctx.Err() == nil {
		c.Violate("first-not-immediate", "no value is buffered when LinearAttempt returns (len=%d); %s", len(ch), desc)
	}
	o.firstReady = len(ch) == 1
	if cancelMode == "random" {
		d := time.Duration(c.Rng.IntN(int(rate)*4+200000)) * time.Nanosecond
		time.AfterFunc(d, doCancel)
	}
	if receiver == "absent" {
		// nobody receives until after the cancellation (or for a while, when there is none)
		if cancelMode == "never" {
			time.Sleep(rate*3 + 100*time.Microsecond)
		} else if cancelMode == "after-first" {
			time.Sleep(rate * 2)
			doCancel()
		} else {
			core.WaitUntil(5000, func() bool { return ctx.Err() != nil })
			time.Sleep(rate)
		}
		if l := len(ch); l > o.maxLen {
			o.maxLen = l
		}
	}
	var prev time.Time
	for {
		observed := cancelled.Load() || ctx.Err() != nil
		if l := len(ch); l > o.maxLen {
			o.maxLen = l
		}
		v, ok, got := core.AwaitChan(ch, 5000+int(rate/time.Millisecond)*2)
		if !got {
			c.Violate("not-closed", "the channel neither yielded nor closed within the bound (received %d of %d, cancelled=%v); %s", o.total, count, ctx.Err() != nil, desc)
			c.SetDump(core.DumpAll())
			return
		}
		if !ok {
			o.closed = true
			// closed: either the count-th value has been delivered or the context is cancelled (read AFTER the
			// close was observed: a context that is live now was live when the channel was closed)
			if o.total < count && ctx.Err() == nil {
				c.Violate("closed-early", "the channel was closed after %d of %d values while the context is still live; %s", o.total, count, desc)
			}
			break
		}
		o.total++
		if observed {
			o.afterObs++
		}
		if v.Before(prev) {
			o.decreasing = true
		}
		prev = v
		if o.total == 1 && cancelMode == "after-first" && receiver != "absent" {
			doCancel()
		}
		if receiver == "slow" {
			time.Sleep(rate*time.Duration(1+c.Rng.IntN(3)) + 20*time.Microsecond)
		}
		if o.total > count+3 {
			break
		}
	}
	if o.total > count {
		c.Violate("too-many-values", "%d values received, count is %d; %s", o.total, count, desc)
	}
	if o.decreasing {
		c.Violate("timestamp-decreased", "a timestamp is smaller than its predecessor; %s", desc)
	}
	if o.maxLen > 1 {
		c.Violate("buffered-more-than-one", "len(ch) reached %d; %s", o.maxLen, desc)
	}
	if o.afterObs > 2 {
		c.Violate("ticks-after-cancel", "%d values were obtained after the cancellation had been observed (at most 2: one buffered, one in flight); %s", o.afterObs, desc)
	}
	if cancelMode == "never" && o.total != count {
		c.Violate("too-few-values", "context never cancelled but only %d of %d values arrived before close; %s", o.total, count, desc)
	}
	if leaks := core.LibLeaks(3000); len(leaks) > 0 {
		c.Violate("producer-leaked", "a library goroutine is still alive after the channel was observed closed: %s; %s", firstLineOf(leaks[0]), desc)
		c.SetDump(leaks[0])
	}
	c.Op("attempt", 1)
	c.Op("value", o.total)
	if ctx.Err() != nil && o.total < count && o.total >= 1 {
		c.Nontrivial()
	}
	c.Sig(count, rate, receiver, cancelMode, o.total, o.afterObs)
	if c.Index < 3 {
		c.SetHistory(fmt.Sprintf("%s -> received %d (after cancellation observed: %d), closed=%v", desc, o.total, o.afterObs, o.closed))
	}
}

// c20Directed: cancel() runs while the producer is held right after a tick (before its context re-check) or right
// after the re-check (before the send).
func c20Directed(c *core.Ctx) {
	site := core.Pick(c.Rng, "attempt.tick", "attempt.send")
	count := core.Pick(c.Rng, 3, 7, 50)
	rate := core.Pick(c.Rng, 50*time.Microsecond, 200*time.Microsecond, time.Millisecond)
	holdAt := int64(1 + c.Rng.IntN(2)) // which hit of the site is held
	p := c.NewPerturb(core.PerturbOpts{})
	defer p.Stop()
	gate := core.NewGate()
	p.On(site, func(hit int64) {
		if hit == holdAt {
			gate.Enter(3000)
		}
	})
	ctx, cancel := context.WithCancel(context.Background())
	defer cancel()
	ch := bigbuff.LinearAttempt(ctx, rate, count)
	desc := fmt.Sprintf("count=%d rate=%s cancel while the producer is held at %s (hit %d)", count, rate, site, holdAt)
	// prompt receiver until the gate is reached
	got := 0
	window := false
	for !window {
		select {
		case _, ok := <-ch:
			if !ok {
				c.Inconclusive("channel closed before the window")
				return
			}
			got++
		case <-gate.Arrived():
			window = true
		case <-time.After(2 * time.Second):
			c.Inconclusive("window not reached")
			gate.Disarm()
			return
		}
	}
	cancel() // returns while the producer is held
	after := 0
	gate.Release()
	for {
		_, ok, g := core.AwaitChan(ch, 5000)
		if !g {
			c.Violate("not-closed", "channel not closed after cancellation; %s", desc)
			c.SetDump(core.DumpAll())
			return
		}
		if !ok {
			break
		}
		after++
	}
	// held at attempt.tick: the re-check sees the cancellation: nothing more is forwarded (only a value already
	// buffered can still be obtained); held at attempt.send: that one tick may be forwarded
	limit := 1
	if site == "attempt.send" {
		limit = 2
	}
	if after > limit {
		c.Violate("ticks-after-cancel", "%d values were obtained after cancel() returned (limit %d here); %s", after, limit, desc)
	}
	if leaks := core.LibLeaks(3000); len(leaks) > 0 {
		c.Violate("producer-leaked", "producer goroutine still alive after close: %s; %s", firstLineOf(leaks[0]), desc)
	}
	c.R.WinHit++
	c.Nontrivial()
	c.Op("attempt", 1)
	c.Op("value", got+after)
	c.Sig(site, count, rate, holdAt, after)
}

// c20FastTicks: very short rates with a deadline context under CPU oversubscription: a tick is (almost) always ready
// when Done fires, and tick times jitter by more than the rate.
func c20FastTicks(c *core.Ctx) {
	g := 16 + c.Rng.IntN(33)
	type res struct {
		total, after int
		decreasing   bool
		notClosed    bool
	}
	out := make(chan res, g)
	for i := 0; i < g; i++ {
		seed := c.Rng.Uint64()
		go func() {
			r := newRand(seed)
			var rs res
			ctx, cancel := context.WithTimeout(context.Background(), time.Duration(300+r.IntN(1200))*time.Microsecond)
			defer cancel()
			rate := core.Pick(r, 100*time.Nanosecond, 300*time.Nanosecond, time.Microsecond)
			ch := bigbuff.LinearAttempt(ctx, rate, 1<<30)
			slow := r.IntN(3) == 0
			var prev time.Time
			for {
				observed := ctx.Err() != nil
				v, ok, got := core.AwaitChan(ch, 8000)
				if !got {
					rs.notClosed = true
					break
				}
				if !ok {
					break
				}
				rs.total++
				if observed {
					rs.after++
				}
				if v.Before(prev) {
					rs.decreasing = true
				}
				prev = v
				if slow && rs.total%5 == 0 {
					time.Sleep(3 * time.Microsecond)
				}
			}
			out <- rs
		}()
	}
	values, maxAfter := 0, 0
	for i := 0; i < g; i++ {
		rs, _, got := core.AwaitChan(out, 30000)
		if !got {
			c.Violate("not-closed", "an attempt never finished")
			c.SetDump(core.DumpAll())
			return
		}
		values += rs.total
		if rs.after > maxAfter {
			maxAfter = rs.after
		}
		if rs.notClosed {
			c.Violate("not-closed", "channel not closed within the bound after the deadline")
		}
		if rs.decreasing {
			c.Violate("timestamp-decreased", "a timestamp is smaller than its predecessor (rate <= 1us, %d concurrent attempts)", g)
		}
		if rs.after > 2 {
			c.Violate("ticks-after-cancel", "%d values were obtained after the receiver had observed the deadline (at most 2: one buffered, one in flight)", rs.after)
		}
	}
	if leaks := core.LibLeaks(3000); len(leaks) > 0 {
		c.Violate("producer-leaked", "producer goroutine still alive after close: %s", firstLineOf(leaks[0]))
	}
	c.Op("attempt", g)
	c.Op("value", values)
	c.Count("max_values_after_deadline_observed", maxAfter)
	if values > g {
		c.Nontrivial()
	}
	c.Sig("fast", g, maxAfter)
}

// c20FullBuffer: the receiver is absent, so the first value fills the buffer; the context is cancelled; from then on the
// receiver takes one value each time the producer sits between its post-tick context check and its send (hook
// attempt.send). Whatever the producer does there, at most 2 values may be obtained after cancel() returned.
func c20FullBuffer(c *core.Ctx) {
	rate := core.Pick(c.Rng, 20*time.Microsecond, 50*time.Microsecond, 200*time.Microsecond)
	p := c.NewPerturb(core.PerturbOpts{})
	defer p.Stop()
	ctx, cancel := context.WithCancel(context.Background())
	defer cancel()
	var ch <-chan time.Time
	var cancelled, taken atomic.Int64
	gate := core.NewGate()
	p.On("attempt.tick", func(int64) { gate.Enter(3000) }) // the producer has a tick in hand, context not yet re-checked
	p.On("attempt.send", func(int64) {
		if cancelled.Load() == 1 && ch != nil {
			select {
			case _, ok := <-ch:
				if ok {
					taken.Add(1)
				}
			default:
			}
			time.Sleep(2 * rate) // the next tick is pending when the producer gets back to its select
		}
	})
	ch = bigbuff.LinearAttempt(ctx, rate, 1<<20)
	window := gate.WaitArrived(3000)
	cancel() // returns while the producer is held right after a tick, with the buffer full
	cancelled.Store(1)
	gate.Disarm()
	// do not touch the channel until the producer has made its decision and exited (otherwise this receiver would
	// empty the buffer before the producer looks at it): the producer goroutine is the only library goroutine here
	core.WaitUntil(5000, func() bool { return len(core.LibGoroutines(core.DumpAll())) == 0 })
	after := 0
	for {
		_, ok, g := core.AwaitChan(ch, 5000)
		if !g {
			c.Violate("not-closed", "channel not closed after cancellation with an absent receiver (rate %s)", rate)
			c.SetDump(core.DumpAll())
			return
		}
		if !ok {
			break
		}
		after++
		if after > 50 {
			break
		}
	}
	total := after + int(taken.Load())
	if total > 2 {
		c.Violate("ticks-after-cancel", "%d values were obtained after cancel() returned (buffer full at cancellation, receiver taking a value whenever the producer was between its check and its send; rate %s)", total, rate)
	}
	if leaks := core.LibLeaks(3000); len(leaks) > 0 {
		c.Violate("producer-leaked", "producer goroutine still alive after close: %s", firstLineOf(leaks[0]))
	}
	c.Op("attempt", 1)
	c.Op("value", total)
	if window {
		c.Nontrivial()
		c.R.WinHit++
	} else {
		c.R.WinMissed++
	}
	c.Sig("fullbuffer", rate, total, window)
}

// c20ErrOnlyCtx reports cancellation through Err() only: its Done() channel never closes.
type c20ErrOnlyCtx struct{ context.Context }

var c20NeverClosed = make(chan struct{})

func (c20ErrOnlyCtx) Done() <-chan struct{} { return c20NeverClosed }

// c20ErrOnly: LinearAttempt with a context that never closes Done(). The guards on ctx.Err() (at entry and after each
// tick) are then the only way the cancellation is noticed.
func c20ErrOnly(c *core.Ctx) {
	count := core.Pick(c.Rng, 1, 2, 2, 3, 4, 9)
	rate := core.Pick(c.Rng, 50*time.Microsecond, 200*time.Microsecond, time.Millisecond)
	mode := core.Pick(c.Rng, "before", "absent", "absent", "leaves-after-k")
	inner, cancel := context.WithCancel(context.Background())
	defer cancel()
	ctx := c20ErrOnlyCtx{inner}
	desc := fmt.Sprintf("err-only context, count=%d rate=%s mode=%s", count, rate, mode)
	if mode == "before" {
		cancel()
		ch := bigbuff.LinearAttempt(ctx, rate, count)
		select {
		case v, ok := <-ch:
			if ok {
				c.Violate("value-after-precancel", "context was cancelled beforehand (Err() != nil) but the channel yielded %v; %s", v, desc)
			}
		default:
			c.Violate("not-closed-at-return", "context was cancelled beforehand (Err() != nil) but the channel is not closed at return; %s", desc)
		}
		if leaks := core.LibLeaks(3000 + int(rate/time.Millisecond)*2); len(leaks) > 0 {
			c.Violate("producer-leaked", "a producer goroutine was started although the context was cancelled beforehand: %s; %s", firstLineOf(leaks[0]), desc)
		}
		c.Op("attempt", 1)
		c.Nontrivial()
		c.Sig(desc)
		return
	}
	ch := bigbuff.LinearAttempt(ctx, rate, count)
	total := 0
	if mode == "leaves-after-k" {
		k := 1 + c.Rng.IntN(count)
		for total < k {
			_, ok, got := core.AwaitChan(ch, 5000+int(rate/time.Millisecond)*2)
			if !got || !ok {
				break
			}
			total++
		}
	}
	// nobody receives from here on; give the producer time to reach (and retry) the send it cannot complete
	time.Sleep(rate * time.Duration(1+c.Rng.IntN(count+2)))
	alive := len(core.LibGoroutines(core.DumpAll())) > 0
	cancel()
	// the producer must notice at its next tick and exit, with nobody draining the channel
	if leaks := core.LibLeaks(5000 + int(rate/time.Millisecond)*2); len(leaks) > 0 {
		c.Violate("producer-stuck", "the producer goroutine is still alive after the cancellation although ticks keep coming (nobody is receiving, %d values were taken before): %s; %s", total, firstLineOf(leaks[0]), desc)
		c.SetDump(leaks[0])
		cancel()
		for range ch { // let it go
		}
		return
	}
	after := 0
	for {
		_, ok, got := core.AwaitChan(ch, 3000)
		if !got {
			c.Violate("not-closed", "the producer exited but the channel is neither readable nor closed; %s", desc)
			return
		}
		if !ok {
			break
		}
		after++
		if after > 5 {
			break
		}
	}
	if after > 2 {
		c.Violate("ticks-after-cancel", "%d values were obtained after the cancellation; %s", after, desc)
	}
	if total+after > count {
		c.Violate("too-many-values", "%d values received, count is %d; %s", total+after, count, desc)
	}
	c.Op("attempt", 1)
	c.Op("value", total+after)
	if alive {
		c.Nontrivial()
	}
	c.Sig(count, rate, mode, total, after, alive)
}
