package props

import (
	"fmt"
	"sync"
	"sync/atomic"
	"time"

	bigbuff "github.com/joeycumines/go-bigbuff"

	"verif/core"
)

// C17 — Worker: one running instance while held, stopped only after every holder is done.

type w17Instance struct {
	id           int
	start        int64
	lastOpen     atomic.Int64 // stamp taken BEFORE a check that found stop open
	stopObserved int64        // stamp taken AFTER stop was observed closed
	exit         int64        // stamp taken BEFORE returning
}

type w17Hold struct {
	holder            int
	doCall, doRet     int64
	doneCall, doneRet int64
	sawInstance       bool
}

type w17Run struct {
	w         bigbuff.Worker
	active    atomic.Int32
	mu        sync.Mutex
	instances []*w17Instance
	holds     []*w17Hold
	probs     []anomaly
}

func (r *w17Run) problem(key, format string, args ...any) {
	r.mu.Lock()
	if len(r.probs) < 20 {
		r.probs = append(r.probs, anomaly{"", key, fmt.Sprintf(format, args...)})
	}
	r.mu.Unlock()
}

// body is the instance function.
func (r *w17Run) body(linger time.Duration) func(stop <-chan struct{}) {
	return func(stop <-chan struct{}) {
		inst := &w17Instance{}
		inst.start = core.Now()
		if n := r.active.Add(1); n > 1 {
			r.problem("two-instances", "%d instances of the worker function are running at once", n)
		}
		r.mu.Lock()
		inst.id = len(r.instances)
		r.instances = append(r.instances, inst)
		r.mu.Unlock()
		for i := 0; ; i++ {
			a := core.Now()
			select {
			case <-stop:
				inst.stopObserved = core.Now()
				if linger > 0 {
					time.Sleep(linger)
				}
				inst.exit = core.Now()
				r.active.Add(-1)
				return
			default:
				inst.lastOpen.Store(a)
			}
			if i%8 == 7 {
				time.Sleep(5 * time.Microsecond)
			} else {
				spin(2)
			}
		}
	}
}

// hold performs one Do ... done cycle.
func (r *w17Run) hold(holder int, dur time.Duration, linger time.Duration) {
	h := &w17Hold{holder: holder}
	h.doCall = core.Now()
	done := r.w.Do(r.body(linger))
	h.doRet = core.Now()
	// while held, an instance is running with its stop channel open: wait (bounded) to see one that found stop
	// open after Do returned
	h.sawInstance = core.WaitUntil(3000, func() bool {
		r.mu.Lock()
		defer r.mu.Unlock()
		for i := len(r.instances) - 1; i >= 0 && i >= len(r.instances)-3; i-- {
			if r.instances[i].lastOpen.Load() > h.doRet {
				return true
			}
		}
		return false
	})
	if !h.sawInstance {
		r.problem("no-instance-while-held", "holder %d: no instance with an open stop channel was running after Do returned (stamp %d)", holder, h.doRet)
	}
	if dur > 0 {
		time.Sleep(dur)
	}
	h.doneCall = core.Now()
	done()
	h.doneRet = core.Now()
	r.mu.Lock()
	r.holds = append(r.holds, h)
	r.mu.Unlock()
}

func (r *w17Run) check(c *core.Ctx) {
	// quiescence: every started instance is stopped and has exited
	if !core.WaitUntil(5000, func() bool {
		if r.active.Load() != 0 {
			return false
		}
		r.mu.Lock()
		defer r.mu.Unlock()
		for _, in := range r.instances {
			if in.exit == 0 {
				return false
			}
		}
		return true
	}) {
		c.Violate("instance-not-stopped", "an instance is still running although every holder has called done")
		c.SetDump(core.DumpAll())
		return
	}
	r.mu.Lock()
	defer r.mu.Unlock()
	for _, p := range r.probs {
		c.Violate(p.Key, "%s", p.Msg)
	}
	// instance intervals are disjoint
	for i := 1; i < len(r.instances); i++ {
		a, b := r.instances[i-1], r.instances[i]
		if b.start < a.exit {
			c.Violate("two-instances", "instance %d started (stamp %d) before instance %d exited (stamp %d)", b.id, b.start, a.id, a.exit)
		}
	}
	for _, h := range r.holds {
		for _, in := range r.instances {
			// stop closed while the holder was outstanding: the instance saw stop open after Do returned and
			// closed before done was called
			if in.lastOpen.Load() > h.doRet && in.stopObserved != 0 && in.stopObserved < h.doneCall {
				c.Violate("stopped-while-held", "instance %d's stop channel was open at stamp %d (after holder %d's Do returned at %d) and observed closed at %d, before the holder called done (%d)", in.id, in.lastOpen.Load(), h.holder, h.doRet, in.stopObserved, h.doneCall)
			}
			// a Do that arrived while the instance was stopping returned before it exited
			if in.stopObserved != 0 && in.stopObserved < h.doCall && h.doRet < in.exit {
				c.Violate("do-returned-while-stopping", "holder %d's Do was called (stamp %d) after instance %d observed stop (%d) and returned (%d) before the instance exited (%d)", h.holder, h.doCall, in.id, in.stopObserved, h.doRet, in.exit)
			}
		}
	}
}

func init() {
	core.Register(&core.Property{
		ID: "C17",
		Rule: "1-16 holders each doing 1-6 Do ... done cycles with random hold times on one Worker, instance bodies that poll stop (stamping before each 'still open' check and after observing it closed) and either return at once or linger after stop, seeded delays at worker.wait.waited / worker.wait.stopping / worker.do.returned; " +
			"directed: the watcher is held at worker.wait.waited (all holders done, before it re-locks) and at worker.wait.stopping (about to close stop) while a new Do arrives. oracle (offline over stamps): instance intervals disjoint and active<=1; no instance has stop open after a holder's Do returned and closed before that holder called done; " +
			"no Do called after an instance observed stop returns before that instance exits; every holder sees (bounded) an instance with open stop after its Do returned; every instance is stopped and exits once nobody holds it. " +
			"early-return: instance functions that return on their own while holders are outstanding (a watcher goroutine keeps polling the stop channel it was given): still never two bodies at once, no stop channel closed while a holder that saw it open is outstanding, every stop channel closed once nobody holds it. " +
			"tight-loop: 2-6 goroutines each calling Do(fn)() thousands of times with nothing in between (instances that linger 0-100us after stop): generations follow each other as fast as they can, several Dos queue behind each stopping instance; never two bodies at once, every instance stopped and gone at the end. non-trivial = more than one instance was started (the last done raced new Dos); distinct = distinct (holders, instances, directed site) signatures",
		Assumptions: []string{"instance functions return only after observing stop closed (so an instance cannot end while held by its own choice)"},
		Families: []core.Family{
			{Name: "random", N: core.TierN(4000, 160000), Batch: 100, Run: c17Random},
			{Name: "directed", N: core.TierN(60, 3200), Batch: 20, Run: c17Directed},
			{Name: "hammer", N: core.TierN(16, 800), Batch: 2, Run: c17Hammer},
			{Name: "instant-release", N: core.TierN(60, 2400), Batch: 20, Run: c17InstantRelease},
			{Name: "early-return", N: core.TierN(200, 8000), Batch: 50, Run: c17EarlyReturn},
			{Name: "tight-loop", N: core.TierN(160, 3200), Batch: 8, Run: c17TightLoop},
		},
	})
}

var worker17Sites = []string{"worker.wait.waited", "worker.wait.stopping", "worker.do.returned"}

func c17Random(c *core.Ctx) {
	r := &w17Run{}
	p := c.RandomPerturb(worker17Sites)
	defer p.Stop()
	holders := 1 + c.Rng.IntN(16)
	var wg sync.WaitGroup
	for h := 0; h < holders; h++ {
		h := h
		seed := c.Rng.Uint64()
		wg.Add(1)
		go func() {
			defer wg.Done()
			rng := newRand(seed)
			cycles := 1 + rng.IntN(6)
			for i := 0; i < cycles; i++ {
				r.hold(h, time.Duration(rng.IntN(400))*time.Microsecond, core.Pick(rng, 0, 0, 100*time.Microsecond, 300*time.Microsecond))
				if rng.IntN(2) == 0 {
					time.Sleep(time.Duration(rng.IntN(300)) * time.Microsecond)
				}
			}
		}()
	}
	rejected := 0
	if c.Rng.IntN(3) == 0 {
		// an invalid Do (nil function: documented panic), recovered by its caller, in between: no effect on the others
		for i, n := 0, 1+c.Rng.IntN(3); i < n; i++ {
			time.Sleep(time.Duration(c.Rng.IntN(300)) * time.Microsecond)
			// (documented to panic; if it returns a done function instead, that function is called, as the contract
			// demands of every caller — whether it panics is not part of the statement)
			var d func()
			if core.Recover(func() { d = r.w.Do(nil) }) == nil && d != nil {
				core.Recover(d)
			}
			rejected++
		}
	}
	if !core.AwaitDone(core.Go(wg.Wait), 30000) {
		c.Violate("do-blocked", "holders did not finish (%d rejected Do(nil) calls were made in between)", rejected)
		c.SetDump(core.DumpAll())
		return
	}
	r.check(c)
	c.Op("do", len(r.holds))
	c.Op("instance", len(r.instances))
	c.Op("rejected", rejected)
	if len(r.instances) > 1 {
		c.Nontrivial()
	}
	c.Sig(holders, len(r.holds), len(r.instances))
	if c.Index < 2 {
		c.SetHistory(fmt.Sprintf("holders=%d holds=%d instances=%d", holders, len(r.holds), len(r.instances)))
	}
}

// c17Directed: hold the watcher in one of its windows while a new Do arrives.
func c17Directed(c *core.Ctx) {
	site := core.Pick(c.Rng, "worker.wait.waited", "worker.wait.stopping")
	r := &w17Run{}
	p := c.NewPerturb(core.PerturbOpts{P: core.Pick(c.Rng, 0, 0.1)})
	defer p.Stop()
	gate := core.NewGate()
	var armed atomic.Bool
	p.On(site, func(int64) {
		if armed.Load() {
			gate.Enter(3000)
		}
	})
	linger := core.Pick(c.Rng, 0, 200*time.Microsecond)
	// first holder: take and release, with the watcher held in the window after the release
	h1done := core.Go(func() { r.hold(0, 100*time.Microsecond, linger) })
	armed.Store(true)
	if !core.AwaitDone(h1done, 10000) {
		c.Violate("do-blocked", "first hold did not finish")
		return
	}
	window := gate.WaitArrived(3000)
	// a new Do arrives while the watcher is in the window
	n := 1 + c.Rng.IntN(3)
	var wg sync.WaitGroup
	for i := 0; i < n; i++ {
		i := i
		wg.Add(1)
		go func() { defer wg.Done(); r.hold(1+i, 200*time.Microsecond, linger) }()
	}
	time.Sleep(time.Duration(100+c.Rng.IntN(300)) * time.Microsecond)
	armed.Store(false)
	gate.Disarm()
	if !core.AwaitDone(core.Go(wg.Wait), 10000) {
		c.Violate("do-blocked", "a Do that arrived while the watcher was at %s never completed its hold", site)
		c.SetDump(core.DumpAll())
		return
	}
	r.check(c)
	if window {
		c.Nontrivial()
		c.R.WinHit++
	} else {
		c.R.WinMissed++
		c.Inconclusive("window %s not entered", site)
	}
	c.Op("do", len(r.holds))
	c.Op("instance", len(r.instances))
	c.Param("site", site)
	c.Sig(site, n, window, len(r.instances))
}

// c17Hammer: many goroutines in tight Do/done loops with (almost) no hold time, so that the worker's mutex is
// contended (incl. starvation-mode hand-offs) and the watcher keeps cycling between waiting and stopping.
func c17Hammer(c *core.Ctx) {
	r := &w17Run{}
	p := c.NewPerturb(core.PerturbOpts{P: core.Pick(c.Rng, 0, 0.01)})
	defer p.Stop()
	g := 8 + c.Rng.IntN(25)
	cycles := 150
	if c.Thorough() {
		cycles = 400
	}
	var wg sync.WaitGroup
	for h := 0; h < g; h++ {
		h := h
		seed := c.Rng.Uint64()
		wg.Add(1)
		go func() {
			defer wg.Done()
			rng := newRand(seed)
			for i := 0; i < cycles; i++ {
				r.hold(h, time.Duration(rng.IntN(30))*time.Microsecond, 0)
			}
		}()
	}
	if !core.AwaitDone(core.Go(wg.Wait), 60000) {
		c.Violate("do-blocked", "holders did not finish")
		c.SetDump(core.DumpAll())
		return
	}
	r.check(c)
	c.Op("do", len(r.holds))
	c.Op("instance", len(r.instances))
	if len(r.instances) > 1 {
		c.Nontrivial()
	}
	c.Sig("hammer", g, len(r.instances))
}

// earlyBody is an instance function that returns on its own after d (or when stopped, whichever is first); a watcher
// goroutine keeps polling the stop channel it was given, so that the stamps used by check() exist for it as well.
func (r *w17Run) earlyBody(d time.Duration) func(stop <-chan struct{}) {
	return func(stop <-chan struct{}) {
		inst := &w17Instance{}
		inst.start = core.Now()
		if n := r.active.Add(1); n > 1 {
			r.problem("two-instances", "%d instances of the worker function are running at once", n)
		}
		r.mu.Lock()
		inst.id = len(r.instances)
		r.instances = append(r.instances, inst)
		r.mu.Unlock()
		watched := make(chan struct{})
		go func() {
			defer close(watched)
			for i := 0; ; i++ {
				a := core.Now()
				select {
				case <-stop:
					so := core.Now()
					r.mu.Lock()
					inst.stopObserved = so
					r.mu.Unlock()
					return
				default:
					inst.lastOpen.Store(a)
				}
				if i%8 == 7 {
					time.Sleep(5 * time.Microsecond)
				} else {
					spin(2)
				}
				if i > 4000000 {
					return // never stopped: reported by the final check
				}
			}
		}()
		t := time.NewTimer(d)
		select {
		case <-stop:
		case <-t.C:
		}
		t.Stop()
		r.mu.Lock()
		inst.exit = core.Now()
		r.mu.Unlock()
		r.active.Add(-1)
	}
}

func c17EarlyReturn(c *core.Ctx) {
	r := &w17Run{}
	p := c.RandomPerturb(worker17Sites)
	defer p.Stop()
	holders := 1 + c.Rng.IntN(6)
	var wg sync.WaitGroup
	for h := 0; h < holders; h++ {
		h := h
		seed := c.Rng.Uint64()
		wg.Add(1)
		go func() {
			defer wg.Done()
			rng := newRand(seed)
			for i := 0; i < 1+rng.IntN(4); i++ {
				hd := &w17Hold{holder: h}
				hd.doCall = core.Now()
				done := r.w.Do(r.earlyBody(time.Duration(rng.IntN(300)) * time.Microsecond))
				hd.doRet = core.Now()
				time.Sleep(time.Duration(rng.IntN(400)) * time.Microsecond)
				hd.doneCall = core.Now()
				done()
				hd.doneRet = core.Now()
				r.mu.Lock()
				r.holds = append(r.holds, hd)
				r.mu.Unlock()
				if rng.IntN(2) == 0 {
					time.Sleep(time.Duration(rng.IntN(200)) * time.Microsecond)
				}
			}
		}()
	}
	if !core.AwaitDone(core.Go(wg.Wait), 30000) {
		c.Violate("do-blocked", "holders did not finish")
		c.SetDump(core.DumpAll())
		return
	}
	// every stop channel handed to an instance is closed once nobody holds the worker
	if !core.WaitUntil(5000, func() bool {
		r.mu.Lock()
		defer r.mu.Unlock()
		for _, in := range r.instances {
			if in.stopObserved == 0 || in.exit == 0 {
				return false
			}
		}
		return r.active.Load() == 0
	}) {
		r.mu.Lock()
		n := 0
		for _, in := range r.instances {
			if in.stopObserved == 0 {
				n++
			}
		}
		r.mu.Unlock()
		c.Violate("instance-not-stopped", "%d instance(s) were never told to stop although every holder has called done (their functions had returned on their own)", n)
		return
	}
	r.mu.Lock()
	for _, pr := range r.probs {
		c.Violate(pr.Key, "%s", pr.Msg)
	}
	for _, h := range r.holds {
		for _, in := range r.instances {
			if in.lastOpen.Load() > h.doRet && in.stopObserved != 0 && in.stopObserved < h.doneCall {
				c.Violate("stopped-while-held", "instance %d's stop channel was open at stamp %d (after holder %d's Do returned at %d) and observed closed at %d, before the holder called done (%d)", in.id, in.lastOpen.Load(), h.holder, h.doRet, in.stopObserved, h.doneCall)
			}
		}
	}
	n := len(r.instances)
	r.mu.Unlock()
	c.Op("do", len(r.holds))
	c.Op("instance", n)
	if n > 1 {
		c.Nontrivial()
	}
	c.Sig("early", holders, len(r.holds), n)
}

// c17InstantRelease: holders call done at once, before the instance goroutine has necessarily taken its first step
// (nothing waits for the instance to be seen running); afterwards a fresh Do must still get a running instance, and
// everything must quiesce.
func c17InstantRelease(c *core.Ctx) {
	r := &w17Run{}
	p := c.RandomPerturb(worker17Sites)
	defer p.Stop()
	g := 1 + c.Rng.IntN(4)
	n := 20 + c.Rng.IntN(200)
	var wg sync.WaitGroup
	for h := 0; h < g; h++ {
		wg.Add(1)
		go func() {
			defer wg.Done()
			for i := 0; i < n; i++ {
				r.w.Do(r.body(0))()
				if i%16 == 0 {
					go func() {}() // another runnable goroutine, so the instance goroutine is not necessarily next
				}
			}
		}()
	}
	if !core.AwaitDone(core.Go(wg.Wait), 20000) {
		c.Violate("do-blocked", "a Do (each released at once) never returned")
		c.SetDump(core.DumpAll())
		return
	}
	// a fresh holder gets a running instance
	fresh := core.Go(func() { r.hold(99, 100*time.Microsecond, 0) })
	if !core.AwaitDone(fresh, 10000) {
		c.Violate("do-blocked", "a Do after %d instantly released holds never completed", g*n)
		c.SetDump(core.DumpAll())
		return
	}
	r.check(c)
	c.Op("do", g*n+1)
	c.Op("instance", len(r.instances))
	if len(r.instances) > 1 {
		c.Nontrivial()
	}
	c.Sig("instant", g, len(r.instances) > 1)
}

// c17TightLoop: Do(fn)() in a tight loop from several goroutines: whole generations (start, hold, release, stop,
// exit) go by while other Dos are still queued behind an earlier stopping instance.
func c17TightLoop(c *core.Ctx) {
	r := &w17Run{}
	g := 2 + c.Rng.IntN(5)
	cycles := 3000
	if c.Thorough() {
		cycles = 4000
	}
	lingers := []time.Duration{0, 0, 20 * time.Microsecond, 100 * time.Microsecond}
	var wg sync.WaitGroup
	for h := 0; h < g; h++ {
		seed := c.Rng.Uint64()
		wg.Add(1)
		go func() {
			defer wg.Done()
			rng := newRand(seed)
			for i := 0; i < cycles; i++ {
				done := r.w.Do(r.body(lingers[rng.IntN(len(lingers))]))
				if rng.IntN(8) == 0 {
					spin(rng.IntN(30))
				}
				done()
			}
		}()
	}
	if !core.AwaitDone(core.Go(wg.Wait), 60000) {
		c.Violate("do-blocked", "tight Do(fn)() loops did not finish (%d goroutines x %d)", g, cycles)
		c.SetDump(core.DumpAll())
		return
	}
	r.check(c)
	c.Op("do", g*cycles)
	c.Op("instance", len(r.instances))
	if len(r.instances) > 1 {
		c.Nontrivial()
	}
	c.Sig("tight", g, len(r.instances) > 1)
}
