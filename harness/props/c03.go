package props

import (
	"context"
	"fmt"
	"math"
	"sync/atomic"
	"time"

	bigbuff "github.com/joeycumines/go-bigbuff"

	"verif/core"
)

// C03 — Buffer retention: nothing unread is evicted; a lagging consumer fails loudly.

func init() {
	core.Register(&core.Property{
		ID: "C03",
		Rule: "cleaner-fn: DefaultCleaner and FixedBufferCleaner(max,target) compared with an independent reference on every size<=6, every multiset of <=3 offsets in [-2,size+2], every max,target in [-1,7] (complete), plus random large inputs incl. MinInt/MaxInt; " +
			"seq: random sequential programs (Put/NewConsumer/Get/Commit/Rollback/Close/Slice/Size/Diff) on a cooldown-0 Buffer under Default/Fixed cleaners (grid incl. target 0, target=max, target>max, negative target) compared step by step with the eager-cleaner sequential model (exact offset, size, Get/Diff/Slice results, sticky 'past' errors); " +
			"long: concurrent runs with the cleaner wrapped by an online monitor (reference result, never evict beyond the smallest committed offset, nothing without consumers), VerifSnapshot invariants, over-asking/under-asking custom cleaners (clamp); " +
			"short: porcupine against the model with forced trims. membership-change-during-cleaner-evaluation: a pass-through default cleaner holds open the evaluation that is about to report a shift while the only committed consumer closes and a new consumer is created (and the other orders): the newcomer has committed nothing, so every value from its start on must still be readable. " +
			"concurrent-first-use: on thousands of zero-value Buffers the first NewConsumer races other first calls (Size/Slice/Put of nothing) from a start barrier; the consumer handed out must be registered (Diff = values put, its values retained while others commit everything, its Get succeeds). slice-is-a-copy: what Slice returned is overwritten and appended to by its caller (open buffer, after evictions, after Close): the next Slice still equals the retained suffix. non-trivial = at least one eviction or one 'past' error was observed; distinct = distinct traces/signatures",
		Assumptions: []string{
			"the cleaner is configured before the first operation (a cleaner installed after the last state change is not applied until the next change: out of scope, DESIGN.md §6)",
			"the sequential family waits (bounded) for the asynchronous cleaner to reach its fixpoint before the next operation; a cleaner that never gets there is C04's subject and is counted as lagging here",
		},
		Families: []core.Family{
			{Name: "cleaner-fn", N: core.TierN(1, 4), Solo: true, Run: c03CleanerFn},
			{Name: "seq-model", N: core.TierN(2000, 120000), Batch: 100, Run: c03Seq},
			{Name: "long-retention", N: core.TierN(120, 4800), Batch: 5, Run: c03Long},
			{Name: "short-fixed-porcupine", N: core.TierN(800, 48000), Batch: 60, Run: c03Short},
			{Name: "membership-change-during-cleaner-evaluation", N: core.TierN(80, 3200), Batch: 20, Run: c03MembershipDuringCleaner},
			{Name: "slice-is-a-copy", N: core.TierN(60, 2400), Batch: 30, Run: c03SliceCopy},
			{Name: "concurrent-first-use", N: core.TierN(12, 480), Batch: 3, Run: c03FirstUse},
		},
	})
}

func c03CleanerFn(c *core.Ctx) {
	cases := 0
	checkDefault := func(size int, offs []int) {
		cp := append([]int(nil), offs...)
		got := bigbuff.DefaultCleaner(size, offs)
		cases++
		if want := refDefaultCleaner(size, cp); got != want {
			c.Violate("default-cleaner-result", "DefaultCleaner(%d, %v) = %d, reference %d", size, cp, got, want)
		}
	}
	checkFixed := func(max, target, size int, offs []int) {
		cp := append([]int(nil), offs...)
		var notes []bigbuff.FixedBufferCleanerNotification
		got := bigbuff.FixedBufferCleaner(max, target, func(n bigbuff.FixedBufferCleanerNotification) { notes = append(notes, n) })(size, offs)
		got2 := bigbuff.FixedBufferCleaner(max, target, nil)(size, offs)
		cases++
		want := cleanerSpec{Fixed: true, Max: max, Target: target}.shift(size, cp)
		if got != want || got2 != want {
			c.Violate("fixed-cleaner-result", "FixedBufferCleaner(%d,%d)(%d, %v) = %d (without callback %d), reference %d", max, target, size, cp, got, got2, want)
		}
		_ = notes // (the optional notification callback is exercised but not asserted: it is not part of the statement)
	}
	if c.Index == 0 {
		// complete enumeration of the small family
		for size := 0; size <= 6; size++ {
			var lists [][]int
			lists = append(lists, nil, []int{})
			for a := -2; a <= size+2; a++ {
				lists = append(lists, []int{a})
				for b := a; b <= size+2; b++ {
					lists = append(lists, []int{a, b}, []int{b, a})
					for d := b; d <= size+2; d++ {
						lists = append(lists, []int{a, b, d}, []int{d, b, a}, []int{b, d, a})
					}
				}
			}
			for _, l := range lists {
				checkDefault(size, l)
				for max := -1; max <= 7; max++ {
					for target := -1; target <= 7; target++ {
						checkFixed(max, target, size, l)
					}
				}
			}
		}
		c.ExhaustiveFamily("cleaner functions: size<=6 x offsets(<=3 in [-2,size+2], orderings) x max,target in [-1,7]", cases)
		c.Sig("exhaustive", cases)
	} else {
		ext := []int{math.MinInt, math.MinInt + 1, -1, 0, 1, math.MaxInt - 1, math.MaxInt, 1 << 31, 1<<31 - 1}
		pick := func() int {
			if c.Rng.IntN(4) == 0 {
				return ext[c.Rng.IntN(len(ext))]
			}
			return c.Rng.IntN(2000) - 100
		}
		for i := 0; i < 200000; i++ {
			size := c.Rng.IntN(1000)
			if c.Rng.IntN(10) == 0 {
				size = math.MaxInt - c.Rng.IntN(3)
			}
			offs := make([]int, c.Rng.IntN(6))
			for j := range offs {
				offs[j] = pick()
			}
			checkDefault(size, offs)
			max, target := pick(), pick()
			if size > max && (target < 0 && size > math.MaxInt+target) {
				continue // size-target would overflow int: outside any meaningful configuration
			}
			checkFixed(max, target, size, offs)
		}
		c.Sig("random", c.Seed)
	}
	c.Op("cleaner_call", cases)
	c.Nontrivial()
}

func pickCleanerSpec(c *core.Ctx) cleanerSpec {
	switch c.Rng.IntN(8) {
	case 0, 1:
		return cleanerSpec{}
	case 2:
		return cleanerSpec{Fixed: true, Max: 1 + c.Rng.IntN(6), Target: 0}
	case 3:
		m := 1 + c.Rng.IntN(6)
		return cleanerSpec{Fixed: true, Max: m, Target: m}
	case 4:
		return cleanerSpec{Fixed: true, Max: 1 + c.Rng.IntN(6), Target: -1 - c.Rng.IntN(3)}
	case 5:
		m := 1 + c.Rng.IntN(5)
		return cleanerSpec{Fixed: true, Max: m, Target: m + 1 + c.Rng.IntN(2)}
	default:
		m := 2 + c.Rng.IntN(6)
		return cleanerSpec{Fixed: true, Max: m, Target: c.Rng.IntN(m)}
	}
}

func c03Seq(c *core.Ctx) {
	cs := pickCleanerSpec(c)
	//                Put New Get Com Rol Clo Sli Siz Dif
	w := [9]int{22, 5, 34, 12, 8, 3, 4, 3, 9}
	ops := genSeqOps(c.Rng, 15+c.Rng.IntN(40), w)
	res := runBufSeq(cs, ops, 3000)
	reportSeq(c, cs, ops, res)
	c.Op("seq_step", res.steps)
	c.Count("evicted", res.evicted)
	c.Count("past_errors", res.pastErrs)
	if res.lagging {
		c.Count("lagging", 1)
		c.Inconclusive("the cleaner did not reach the model's fixpoint within the bound (reclamation: C04): %s %s", cs, res.lagInfo)
	}
	if res.evicted > 0 || res.pastErrs > 0 {
		c.Nontrivial()
	}
	c.Param("cleaner", cs.String())
	c.Sig(cs.String(), res.trace)
	if c.Index < 2 && res.mismatch == "" {
		c.SetHistory(map[string]any{"cleaner": cs.String(), "trace": res.trace})
	}
}

func c03Long(c *core.Ctx) {
	o := longOpts{
		producers: 1 + c.Rng.IntN(4),
		batches:   30 + c.Rng.IntN(100),
		maxBatch:  4,
		consumers: 1 + c.Rng.IntN(5),
		cooldown:  core.Pick(c.Rng, 0, time.Microsecond, 50*time.Microsecond, time.Millisecond),
		observers: 1 + c.Rng.IntN(2),
	}
	switch c.Rng.IntN(6) {
	case 0, 1:
		o.ref = true
	case 2:
		o.cs = cleanerSpec{Fixed: true, Max: 5 + c.Rng.IntN(40), Target: c.Rng.IntN(5)}
		o.producers = 1
	case 3:
		o.cs = cleanerSpec{Fixed: true, Max: 5 + c.Rng.IntN(40), Target: c.Rng.IntN(5)}
	case 4:
		o.custom = "overask"
		o.ref = true
	case 5:
		o.custom = "underask"
		o.ref = true
	}
	c.Param("opts", map[string]any{"producers": o.producers, "batches": o.batches, "consumers": o.consumers, "ref": o.ref, "cooldown": o.cooldown.String(), "cleaner": o.cs.String(), "custom": o.custom})
	p := c.RandomPerturb(bufferSites)
	h := runBufLong(c, o)
	p.Stop()
	pairs, src := h.checkOrder()
	h.checkRetentionHistory()
	h.report(c, "retention", "order", "progress")
	sum := h.summary()
	sum["index_source"] = src
	past := 0
	for _, s := range h.sessions {
		if s.pastErrAt >= 0 {
			past++
		}
	}
	c.Op("put", len(h.puts))
	c.Op("cleaner_call", int(h.cleanerCalls))
	c.Op("snapshot", len(h.slices))
	c.Count("chain_pairs", pairs)
	c.Count("evicted", int(h.shifts))
	c.Count("lagging_consumers", past)
	if h.shifts > 0 {
		c.Nontrivial()
	}
	c.Sig(sum, past)
	if c.Index < 1 {
		c.SetHistory(sum)
	}
}

func c03Short(c *core.Ctx) {
	cs := pickCleanerSpec(c)
	o := bufShortOpts{
		clients:    2 + c.Rng.IntN(4),
		opsPer:     5 + c.Rng.IntN(6),
		cs:         cs,
		cooldown:   core.Pick(c.Rng, 0, 0, time.Microsecond, 100*time.Microsecond),
		weights:    [9]int{28, 5, 30, 10, 6, 3, 6, 4, 8},
		shareCons:  c.Rng.IntN(2) == 0,
		preConsume: 1 + c.Rng.IntN(2),
	}
	c.Param("opts", map[string]any{"clients": o.clients, "ops_per": o.opsPer, "cleaner": cs.String(), "cooldown": o.cooldown.String()})
	p := c.RandomPerturb(bufferSites)
	ops, hung := runBufShort(c, o)
	p.Stop()
	if hung != "" {
		c.Violate("hang", "%s", firstLineOf(hung))
		c.SetDump(hung)
		return
	}
	checkBufShort(c, ops, cs, "")
	past := 0
	for _, op := range ops {
		if op.Output.(bOut).ErrPast {
			past++
		}
	}
	c.Count("past_errors", past)
	_ = fmt.Sprint
}

// c03MembershipDuringCleaner: the consumers change while the cleaner function is being evaluated. The evaluation that
// is about to report "shift k" (computed from consumer X's committed offset) is held open; X closes and Y is created
// meanwhile (or just Y is created, or Y first and then X closes). Whatever the library does about the stale result, Y is
// an open consumer that has committed nothing: nothing from its start on may have been evicted.
func c03MembershipDuringCleaner(c *core.Ctx) {
	cooldown := core.Pick(c.Rng, 0, 0, 300*time.Microsecond)
	order := core.Pick(c.Rng, "close-then-create", "close-then-create", "create-then-close", "create-only")
	n := 4 + c.Rng.IntN(8)
	k := 1 + c.Rng.IntN(n-1)
	gate := core.NewGate()
	var armed atomic.Bool
	b := newBuffer(cleanerSpec{}, cooldown, func(inner bigbuff.Cleaner) bigbuff.Cleaner {
		return func(size int, offsets []int) int {
			shift := inner(size, append([]int(nil), offsets...))
			if shift > 0 && armed.CompareAndSwap(true, false) {
				gate.Enter(1000) // the result is in hand, not yet applied
			}
			return shift
		}
	})
	defer b.Close()
	x, err := b.NewConsumer()
	if err != nil {
		c.Violate("newconsumer-error", "%v", err)
		return
	}
	vals := make([]interface{}, n)
	for i := range vals {
		vals[i] = i
	}
	b.Put(context.Background(), vals...)
	for i := 0; i < k; i++ {
		if _, err := x.Get(context.Background()); err != nil {
			c.Violate("get-error", "%v", err)
			return
		}
	}
	time.Sleep(cooldown*2 + 100*time.Microsecond)
	armed.Store(true)
	x.Commit() // wakes the cleaner: its evaluation (shift k) is held open
	window := gate.WaitArrived(3000)
	var y bigbuff.Consumer
	var yerr error
	changed := core.Go(func() {
		switch order {
		case "close-then-create":
			x.Close()
			y, yerr = b.NewConsumer()
		case "create-then-close":
			y, yerr = b.NewConsumer()
			x.Close()
		default:
			y, yerr = b.NewConsumer()
		}
	})
	time.Sleep(time.Duration(100+c.Rng.IntN(300)) * time.Microsecond)
	gate.Release()
	desc := fmt.Sprintf("n=%d, X committed %d, %s while the cleaner's evaluation (shift %d) was held open (window entered: %v), cooldown %s", n, k, order, k, window, cooldown)
	if !core.AwaitDone(changed, 10000) {
		c.Violate("membership-blocked", "closing / creating consumers did not complete; %s", desc)
		c.SetDump(core.DumpAll())
		return
	}
	if yerr != nil {
		c.Violate("newconsumer-error", "%v; %s", yerr, desc)
		return
	}
	defer y.Rollback()
	if order == "create-only" {
		defer x.Rollback()
	}
	time.Sleep(cooldown*2 + 200*time.Microsecond) // let the pass finish
	// Y has committed nothing: everything from its start to the end is readable, its lag never exceeds Size
	d, ok := b.Diff(y)
	if sz := b.Size(); !ok || d > sz {
		c.Violate("unread-evicted", "Diff(Y)=(%d,%v) exceeds Size()=%d right after Y was created: values Y has not read (let alone committed) were evicted; %s", d, ok, sz, desc)
	}
	var got []int
	for i := 0; i < d; i++ {
		v, err := y.Get(context.Background())
		if err != nil {
			c.Violate("unread-evicted", "Y, an open consumer that committed nothing, got %v from Get #%d; %s", err, i, desc)
			return
		}
		m, _ := v.(int)
		got = append(got, m)
	}
	for i := range got {
		if got[i] != n-len(got)+i {
			c.Violate("wrong-value", "Y read %v, want the last %d values of 0..%d in order; %s", got, len(got), n-1, desc)
			break
		}
	}
	c.Op("get", k+len(got))
	if window {
		c.Nontrivial()
		c.R.WinHit++
	} else {
		c.R.WinMissed++
	}
	c.Sig("membership", order, cooldown, window, len(got))
}

// c03SliceCopy: the slice Slice returns is the caller's: overwriting it and appending to it changes nothing in the
// buffer. Checked on an open buffer, after evictions and after Close.
func c03SliceCopy(c *core.Ctx) {
	cs := pickCleanerSpec(c)
	b := newBuffer(cs, core.Pick(c.Rng, 0, 100*time.Microsecond), nil)
	cons, _ := b.NewConsumer()
	n := 1 + c.Rng.IntN(10)
	for i := 0; i < n; i++ {
		b.Put(context.Background(), i)
	}
	reads := c.Rng.IntN(n + 1)
	for i := 0; i < reads; i++ {
		if _, err := cons.Get(context.Background()); err != nil {
			break
		}
	}
	if c.Rng.IntN(2) == 0 {
		cons.Commit()
	} else {
		cons.Rollback()
	}
	time.Sleep(300 * time.Microsecond) // evictions, if any, happen now
	closed := c.Rng.IntN(2) == 0
	if closed {
		cons.Close()
		if !core.AwaitDone(core.Go(func() { b.Close() }), 10000) {
			c.Violate("close-blocked", "Buffer.Close did not return")
			return
		}
	} else {
		defer b.Close()
		defer cons.Rollback()
	}
	for round := 0; round < 3; round++ {
		s1 := b.Slice()
		want := fmt.Sprint(s1)
		if len(s1) != b.Size() {
			c.Violate("slice-vs-size", "Slice has %d values, Size()=%d (closed=%v)", len(s1), b.Size(), closed)
		}
		for i := range s1 {
			s1[i] = "overwritten by the caller"
		}
		s1 = append(s1, "appended by the caller")
		_ = s1
		if got := fmt.Sprint(b.Slice()); got != want {
			c.Violate("slice-not-a-copy", "Slice returned %s, its caller modified that slice, and the next Slice returned %s (closed=%v, %s)", want, got, closed, cs)
			break
		}
	}
	c.Op("slice", 6)
	c.Nontrivial()
	c.Sig("slice-copy", cs.String(), n, reads, closed)
}

// raceFirstCalls runs the given first calls on one zero-value Buffer from a common start barrier.
func raceFirstCalls(b *bigbuff.Buffer, calls ...func()) {
	start := make(chan struct{})
	done := make(chan struct{}, len(calls))
	for _, f := range calls {
		f := f
		go func() {
			<-start
			f()
			done <- struct{}{}
		}()
	}
	close(start)
	for range calls {
		<-done
	}
}

// c03FirstUse: the lazy initialiser under concurrent first use. A consumer created by one of the racing first calls is
// an open consumer like any other: it stays registered.
func c03FirstUse(c *core.Ctx) {
	n := 600
	if c.Thorough() {
		n = 1500
	}
	for i := 0; i < n && !c.Violated(); i++ {
		b := new(bigbuff.Buffer)
		var c1 bigbuff.Consumer
		var cerr error
		others := []func(){func() { b.Size() }, func() { b.Slice() }, func() { b.Put(context.Background()) }, func() { b.Size() }}
		c.Rng.Shuffle(len(others), func(i, j int) { others[i], others[j] = others[j], others[i] })
		calls := append([]func(){func() { c1, cerr = b.NewConsumer() }}, others[:1+c.Rng.IntN(3)]...)
		c.Rng.Shuffle(len(calls), func(i, j int) { calls[i], calls[j] = calls[j], calls[i] })
		raceFirstCalls(b, calls...)
		if cerr != nil {
			c.Violate("newconsumer-error", "first NewConsumer on a zero-value Buffer: %v", cerr)
			break
		}
		b.Put(context.Background(), 1, 2, 3)
		if d, ok := b.Diff(c1); !ok || d != 3 {
			c.Violate("consumer-not-registered", "buffer #%d: a consumer created by a first call that raced other first calls: Diff=(%d,%v) after 3 values were put, want (3,true)", i, d, ok)
			b.Close()
			break
		}
		c2, _ := b.NewConsumer()
		for j := 0; j < 3; j++ {
			c2.Get(context.Background())
		}
		c2.Commit()
		time.Sleep(50 * time.Microsecond)
		if sz := b.Size(); sz != 3 {
			c.Violate("evicted-uncommitted", "buffer #%d: Size()=%d after another consumer committed everything, but the first consumer has read nothing of the 3 values", i, sz)
		}
		if v, err := c1.Get(context.Background()); err != nil || v != 1 {
			c.Violate("consumer-not-registered", "buffer #%d: first consumer's Get returned (%v, %v), want 1", i, v, err)
		}
		c1.Rollback()
		c1.Close()
		c2.Close()
		b.Close()
	}
	c.Op("first_use_race", n)
	c.Nontrivial()
	c.Sig("first-use", c.Index)
}
