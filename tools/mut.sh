#!/bin/bash
# Dev tool: run checks against a mutated scratch copy of /repo (never touches /repo).
# usage: tools/mut.sh <patch.diff | 'sed:FILE:EXPR'> <prop[,prop...]> [tier] [seed]
set -u
export GOFLAGS=-mod=mod GOPROXY=off GOSUMDB=off GOTOOLCHAIN=local
V=$(cd "$(dirname "$0")/.." && pwd)
M=$1; case "$M" in sed:*) ;; *) M=$(realpath "$M");; esac; PROPS=$2; TIER=${3:-quick}; SEED=${4:-1}
D=$(mktemp -d /tmp/mut-XXXXXX)/bigbuff
mkdir -p "$D"
rsync -a --exclude .git /repo/ "$D/"
trap 'rm -rf "$(dirname "$D")" "$V/work/mod/$(echo "$D" | tr / _)".*' EXIT
case "$M" in
  sed:*) f=$(echo "$M" | cut -d: -f2); e=$(echo "$M" | cut -d: -f3-); cp "$D/$f" "$D/$f.orig"; sed -i "$e" "$D/$f"; if cmp -s "$D/$f" "$D/$f.orig"; then echo "MUTANT DID NOT CHANGE ANYTHING"; exit 3; fi; rm "$D/$f.orig" ;;
  *) (cd "$D" && git apply "$M") || { (cd "$D" && patch -p1 < "$M") || { echo "PATCH FAILED"; exit 3; }; } ;;
esac
(cd "$D" && go build -tags verif ./... ) || { echo "MUTANT DOES NOT BUILD"; exit 3; }
rc=0
for P in $(echo "$PROPS" | tr , ' '); do
  VERIF_REPO="$D" VERIF_SEED=$SEED "$V/check" "$P" "$TIER" -no-evidence 2>&1 | grep -v '^  family' | awk 'NR<=12'
  r=${PIPESTATUS[0]}
  echo "== $P $TIER seed=$SEED exit=$r"
  [ $r -ne 0 ] && rc=$r
done
exit $rc
