package props

import (
	"context"
	"fmt"
	"sync/atomic"
	"time"

	bigbuff "github.com/joeycumines/go-bigbuff"

	"verif/core"
)

// C01 — Buffer: each consumer sees a gap-free, duplicate-free FIFO run of the put order.

var bufferSites = []string{"waitcond.park", "waitcond.cancelled", "buffer.getasync.spawned", "buffer.cleanup.timer", "buffer.cleanup.shifted", "consumer.get.async", "consumer.close.wait"}

func pickCooldown(c *core.Ctx) time.Duration {
	return core.Pick(c.Rng, 0, time.Microsecond, 50*time.Microsecond, time.Millisecond, 10*time.Millisecond)
}

func init() {
	core.Register(&core.Property{
		ID: "C01",
		Rule: "long: P in 1..6 producers putting batches of 0..5 unique ids, K in 1..6 consumer goroutines (1-3 consumer sessions each: Get/Commit/Rollback/Diff at random, created and closed at random instants), " +
			"a reference consumer created before the first Put that reads everything (global index), Slice observers, cooldown in {0,1us,50us,1ms,10ms}, seeded delays at the buffer hook sites; oracle = order chain " +
			"(successor/predecessor uniqueness, gap-free runs, start within [offset before, offset after] creation, batch contiguity, program and real-time order of Puts). short: <=6 clients x <=10 ops checked by porcupine " +
			"against the sequential Buffer model with a may-run cleaner. non-trivial = at least two operations overlapped in time / at least one eviction happened while consumers were reading; distinct = distinct completion-order signatures",
		Assumptions: []string{
			"each consumer is driven by one goroutine in the long runs (shared consumers are covered by the porcupine family)",
			"VerifSnapshot (read lock) is used to bound the offset at consumer creation",
			"values are unique ints, so a read identifies the Put that supplied it",
		},
		Families: []core.Family{
			{Name: "long-chain", N: core.TierN(120, 6000), Batch: 4, Run: c01Long},
			{Name: "short-porcupine", N: core.TierN(1500, 80000), Batch: 50, Run: c01Short},
			{Name: "put-cancelled-midway", N: core.TierN(60, 2400), Batch: 10, Run: c01PutCancelled},
			{Name: "huge-batches", N: core.TierN(6, 240), Batch: 2, Run: c01HugeBatches},
		},
	})
}

func c01Long(c *core.Ctx) {
	o := longOpts{
		producers: 1 + c.Rng.IntN(6),
		batches:   30 + c.Rng.IntN(120),
		maxBatch:  5,
		consumers: 1 + c.Rng.IntN(6),
		ref:       c.Rng.IntN(6) != 0,
		cooldown:  pickCooldown(c),
		observers: c.Rng.IntN(3),
	}
	if c.Thorough() && c.Rng.IntN(4) == 0 {
		o.batches *= 4
	}
	c.Param("opts", map[string]any{"producers": o.producers, "batches": o.batches, "consumers": o.consumers, "ref": o.ref, "cooldown": o.cooldown.String(), "observers": o.observers})
	p := c.RandomPerturb(bufferSites)
	h := runBufLong(c, o)
	p.Stop()
	pairs, src := h.checkOrder()
	h.report(c, "order", "progress")
	sum := h.summary()
	sum["chain_pairs"] = pairs
	sum["index_source"] = src
	reads := 0
	for _, s := range h.sessions {
		reads += len(s.vals)
	}
	c.Op("put", len(h.puts))
	c.Op("get_distinct_positions", reads)
	c.Op("slice", len(h.slices))
	c.Count("chain_pairs", pairs)
	c.Count("evicted", int(h.shifts))
	c.Count("index_"+src, 1)
	if h.shifts > 0 && len(h.sessions) > 1 {
		c.Nontrivial()
	}
	c.Sig(sum)
	if c.Index < 2 {
		c.SetHistory(sum)
	}
}

func c01Short(c *core.Ctx) {
	cs := cleanerSpec{}
	if c.Rng.IntN(4) == 0 {
		cs = cleanerSpec{Fixed: true, Max: 2 + c.Rng.IntN(6), Target: c.Rng.IntN(4)}
	}
	o := bufShortOpts{
		clients:    2 + c.Rng.IntN(4),
		opsPer:     5 + c.Rng.IntN(6),
		cs:         cs,
		cooldown:   core.Pick(c.Rng, 0, time.Microsecond, 50*time.Microsecond, time.Millisecond),
		weights:    defaultShortWeights(),
		shareCons:  c.Rng.IntN(2) == 0,
		preConsume: c.Rng.IntN(3),
	}
	c.Param("opts", map[string]any{"clients": o.clients, "ops_per": o.opsPer, "cleaner": cs.String(), "cooldown": o.cooldown.String(), "share": o.shareCons, "pre": o.preConsume})
	p := c.RandomPerturb(bufferSites)
	ops, hung := runBufShort(c, o)
	p.Stop()
	if hung != "" {
		c.Violate("hang", "%s", firstLineOf(hung))
		c.SetDump(hung)
		return
	}
	checkBufShort(c, ops, cs, "")
	if c.Index < 2 && !c.Violated() {
		c.SetHistory(describeHistory(ops, bufferModel(cs).DescribeOperation, 40))
	}
}

// c01PutCancelled: the context of a Put is cancelled while the Put is waiting for the buffer lock. Whatever the Put
// then returns, the consumers' streams consist of exactly the values of the Puts that returned nil.
func c01PutCancelled(c *core.Ctx) {
	cooldown := core.Pick(c.Rng, 0, 0, 200*time.Microsecond)
	var gateP atomic.Pointer[core.Gate]
	var armed atomic.Bool
	b := newBuffer(cleanerSpec{}, cooldown, func(inner bigbuff.Cleaner) bigbuff.Cleaner {
		return func(size int, offsets []int) int {
			if armed.CompareAndSwap(true, false) {
				gateP.Load().Enter(300) // one cleaner evaluation is held open (falls through after a short bound: it may have caught the ordinary Put instead)
			}
			return inner(size, append([]int(nil), offsets...))
		}
	})
	defer b.Close()
	ref, err := b.NewConsumer()
	if err != nil {
		c.Violate("newconsumer-error", "%v", err)
		return
	}
	defer ref.Rollback()
	rounds := 3 + c.Rng.IntN(6)
	var accepted, rejected []int
	windows := 0
	next := 0
	for r := 0; r < rounds; r++ {
		// an ordinary Put first (it also wakes the cleanup goroutine, whose next evaluation is held open)
		gate := core.NewGate()
		gateP.Store(gate)
		armed.Store(true)
		if err := b.Put(context.Background(), next); err != nil {
			c.Violate("put-error", "Put(%d) with a live context failed: %v", next, err)
			return
		}
		accepted = append(accepted, next)
		next++
		window := gate.WaitArrived(3000)
		// the Put under test: batch of 1-3, its context cancelled while it is queued (or just before / after)
		k := 1 + c.Rng.IntN(3)
		vals := make([]interface{}, k)
		ids := make([]int, k)
		for i := range vals {
			ids[i] = next
			vals[i] = next
			next++
		}
		ctx, cancel := context.WithCancel(context.Background())
		var perr error
		done := core.Go(func() { perr = b.Put(ctx, vals...) })
		time.Sleep(time.Duration(50+c.Rng.IntN(250)) * time.Microsecond)
		cancel()
		if c.Rng.IntN(2) == 0 {
			time.Sleep(time.Duration(c.Rng.IntN(100)) * time.Microsecond)
		}
		armed.Store(false)
		gate.Release()
		if !core.AwaitDone(done, 10000) {
			c.Violate("put-blocked", "a Put whose context was cancelled while it was queued never returned")
			c.SetDump(core.DumpAll())
			return
		}
		if perr == nil {
			accepted = append(accepted, ids...)
		} else {
			rejected = append(rejected, ids...)
		}
		if window {
			windows++
		}
	}
	// the reference consumer reads everything that is there
	var got []int
	for {
		d, ok := b.Diff(ref)
		if !ok || d <= 0 {
			break
		}
		v, err := ref.Get(context.Background())
		if err != nil {
			c.Violate("get-error", "reference consumer: %v", err)
			return
		}
		n, _ := v.(int)
		got = append(got, n)
		ref.Commit()
	}
	desc := fmt.Sprintf("Puts that returned nil: %v; Puts that returned an error: %v; stream: %v", accepted, rejected, got)
	if fmt.Sprint(got) != fmt.Sprint(accepted) {
		key := "stream-differs"
		for _, v := range got {
			for _, x := range rejected {
				if v == x {
					key = "invented-value"
				}
			}
		}
		c.Violate(key, "the consumer's stream is not exactly the values of the successful Puts in order (a Put that reports an error must have stored nothing); %s", desc)
	}
	c.Op("put", 2*rounds)
	c.Op("get", len(got))
	c.Count("puts_rejected", len(rejected))
	if windows > 0 {
		c.Nontrivial()
		c.R.WinHit++
	} else {
		c.R.WinMissed++
	}
	c.Sig("put-cancelled", rounds, len(rejected) > 0, windows > 0)
}

// c01HugeBatches: "each call's values are contiguous" holds for calls of any size.
func c01HugeBatches(c *core.Ctx) {
	b := newBuffer(cleanerSpec{}, core.Pick(c.Rng, 0, 100*time.Microsecond), nil)
	defer b.Close()
	ref, err := b.NewConsumer()
	if err != nil {
		c.Violate("newconsumer-error", "%v", err)
		return
	}
	defer ref.Rollback()
	producers := 2 + c.Rng.IntN(2)
	rounds := 3 + c.Rng.IntN(4)
	sizes := make([][]int, producers)
	for p := range sizes {
		for r := 0; r < rounds; r++ {
			sizes[p] = append(sizes[p], 9000+c.Rng.IntN(31000))
		}
	}
	type tag struct{ p, r, i int }
	done := make(chan struct{})
	go func() {
		defer close(done)
		start := make(chan struct{})
		fin := make(chan struct{}, producers)
		for p := 0; p < producers; p++ {
			p := p
			go func() {
				<-start
				for r, n := range sizes[p] {
					vals := make([]interface{}, n)
					for i := range vals {
						vals[i] = tag{p, r, i}
					}
					b.Put(context.Background(), vals...)
				}
				fin <- struct{}{}
			}()
		}
		close(start)
		for p := 0; p < producers; p++ {
			<-fin
		}
	}()
	total := 0
	for p := range sizes {
		for _, n := range sizes[p] {
			total += n
		}
	}
	var cur tag
	inBatch := false
	nextRound := make([]int, producers)
	got := 0
	for got < total {
		ctx, cancel := context.WithTimeout(context.Background(), 20*time.Second)
		v, err := ref.Get(ctx)
		cancel()
		if err != nil {
			c.Violate("get-error", "reference consumer after %d of %d values: %v", got, total, err)
			return
		}
		got++
		t := v.(tag)
		switch {
		case !inBatch:
			if t.i != 0 || t.r != nextRound[t.p] {
				c.Violate("batch-not-contiguous", "expected the first value of producer %d's batch %d, got value %d of its batch %d (a batch of %d values is not one contiguous run)", t.p, nextRound[t.p], t.i, t.r, sizes[t.p][t.r])
				return
			}
			cur, inBatch = t, true
		case t.p != cur.p || t.r != cur.r || t.i != cur.i+1:
			c.Violate("batch-not-contiguous", "after value %d of producer %d's batch %d (%d values) came value %d of producer %d's batch %d: the values of one Put are not contiguous", cur.i, cur.p, cur.r, sizes[cur.p][cur.r], t.i, t.p, t.r)
			return
		default:
			cur = t
		}
		if inBatch && cur.i == sizes[cur.p][cur.r]-1 {
			inBatch = false
			nextRound[cur.p]++
		}
		if got%4096 == 0 {
			ref.Commit()
		}
	}
	ref.Commit()
	<-done
	c.Op("put", producers*rounds)
	c.Op("get", got)
	c.Nontrivial()
	c.Sig("huge", producers, rounds)
}
