#!/usr/bin/env python3
"""Dev tool: fills the generated tables of DESIGN.md §10 (families, kill matrix, hand matrix, sweeps)."""
import json, os, re, subprocess, sys
V = os.path.dirname(os.path.dirname(os.path.abspath(__file__)))
env = dict(os.environ, GOFLAGS='-mod=mod', GOPROXY='off', GOSUMDB='off', GOTOOLCHAIN='local')
def fill(s, name, body):
    a, b = '<!-- %s:BEGIN -->' % name, '<!-- %s:END -->' % name
    i, j = s.index(a) + len(a), s.index(b)
    return s[:i] + '\n' + body.strip('\n') + '\n' + s[j:]
s = open(os.path.join(V, 'DESIGN.md')).read()
# families
subprocess.run(['go', 'build', '-tags', 'verif', '-o', '/tmp/bbv-describe', './cmd/bbverif'], cwd=os.path.join(V, 'harness'), env=env, check=True)
fam = subprocess.run(['/tmp/bbv-describe', 'describe'], capture_output=True, text=True).stdout
os.remove('/tmp/bbv-describe')
s = fill(s, 'FAMILIES', fam)
# kill matrix
for tier in ('quick',):
    p = os.path.join(V, 'tools', 'KILLMATRIX-%s.md' % tier)
    if os.path.exists(p):
        body = open(p).read().split('\n', 4)[4]
        s = fill(s, 'KILLMATRIX', body)
# hand matrix
p = os.path.join(V, 'tools', 'HANDMATRIX-quick.txt')
if os.path.exists(p):
    rows = ['| property | change | result (quick, seed 1) | first violation key |', '|---|---|---|---|']
    for l in open(p):
        parts = l.strip().split('|')
        if len(parts) == 4:
            res = {'exit=1': 'caught', 'exit=0': '**missed**', 'exit=2': 'harness error'}.get(parts[2], parts[2])
            rows.append('| %s | %s | %s | %s |' % (parts[0], parts[1], res, parts[3].replace('key=', '')))
    s = fill(s, 'HANDMATRIX', '\n'.join(rows))
p = os.path.join(V, 'tools', 'SWEEPS.md')
if os.path.exists(p):
    s = fill(s, 'SWEEPS', open(p).read())
open(os.path.join(V, 'DESIGN.md'), 'w').write(s)
print('DESIGN.md tables updated')
