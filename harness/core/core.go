package core

import (
	"encoding/json"
	"fmt"
	"hash/fnv"
	"math/rand/v2"
	"os"
	"runtime"
	"sort"
	"strings"
	"sync"
	"sync/atomic"
	"time"
)

// ---------------------------------------------------------------------------
// Verdicts and results

const (
	Held         = "held"
	Violated     = "violated"
	Inconclusive = "inconclusive"
)

// Result is the record of one scenario (child -> parent, one JSON object per line).
type Result struct {
	Prop       string         `json:"prop"`
	Family     string         `json:"family"`
	Index      int            `json:"index"`
	Seed       uint64         `json:"seed"`
	GOMAXPROCS int            `json:"gomaxprocs"`
	Params     map[string]any `json:"params,omitempty"`
	Verdict    string         `json:"verdict"`
	Reason     string         `json:"reason,omitempty"`
	Key        string         `json:"key,omitempty"` // stable witness key (known findings)
	Events     int            `json:"events"`
	Ops        map[string]int `json:"ops,omitempty"`
	Overlaps   int            `json:"overlaps,omitempty"`
	HookHits   map[string]int `json:"hook_hits,omitempty"`
	WinHit     int            `json:"win_hit,omitempty"`
	WinMissed  int            `json:"win_missed,omitempty"`
	Signature  string         `json:"signature,omitempty"`
	Nontrivial bool           `json:"nontrivial"`
	PorcOK     int            `json:"porc_ok,omitempty"`
	PorcBad    int            `json:"porc_illegal,omitempty"`
	PorcUnk    int            `json:"porc_unknown,omitempty"`
	Counters   map[string]int `json:"counters,omitempty"`
	Exhaustive map[string]int `json:"exhaustive,omitempty"` // family name -> cases, complete enumeration
	History    any            `json:"history,omitempty"`
	Dump       string         `json:"dump,omitempty"`
	// Extra violations beyond the first (each "key\treason").
	More []string `json:"more,omitempty"`
}

// Ctx is handed to every scenario.
type Ctx struct {
	Prop   string
	Tier   string
	Family string
	Index  int
	Seed   uint64
	Rng    *rand.Rand
	Race   bool // race mode: no shared harness synchronisation inside workloads
	R      *Result
	mu     sync.Mutex
	sigH   []string
}

func NewCtx(prop, tier, family string, index int, seed uint64, race bool) *Ctx {
	s := Mix(seed, HashStr(prop+"/"+family), uint64(index))
	c := &Ctx{Prop: prop, Tier: tier, Family: family, Index: index, Seed: s, Race: race}
	c.Rng = rand.New(rand.NewPCG(s, s^0x9e3779b97f4a7c15))
	c.R = &Result{Prop: prop, Family: family, Index: index, Seed: s, GOMAXPROCS: runtime.GOMAXPROCS(0), Verdict: Held,
		Params: map[string]any{}, Ops: map[string]int{}, Counters: map[string]int{}}
	return c
}

func (c *Ctx) Thorough() bool { return c.Tier == "thorough" }

// Violate records a violation (first one wins the headline; others are kept in More).
func (c *Ctx) Violate(key, format string, args ...any) {
	c.mu.Lock()
	defer c.mu.Unlock()
	reason := fmt.Sprintf(format, args...)
	if c.R.Verdict != Violated {
		c.R.Verdict = Violated
		c.R.Key = key
		c.R.Reason = reason
		return
	}
	if len(c.R.More) < 20 {
		c.R.More = append(c.R.More, key+"\t"+reason)
	}
}

func (c *Ctx) Violated() bool {
	c.mu.Lock()
	defer c.mu.Unlock()
	return c.R.Verdict == Violated
}

// Inconclusive marks the scenario inconclusive unless it is already violated.
func (c *Ctx) Inconclusive(format string, args ...any) {
	c.mu.Lock()
	defer c.mu.Unlock()
	if c.R.Verdict == Held {
		c.R.Verdict = Inconclusive
		c.R.Reason = fmt.Sprintf(format, args...)
	}
}

func (c *Ctx) Param(k string, v any) { c.mu.Lock(); c.R.Params[k] = v; c.mu.Unlock() }
func (c *Ctx) Count(k string, n int) { c.mu.Lock(); c.R.Counters[k] += n; c.mu.Unlock() }
func (c *Ctx) Op(k string, n int)    { c.mu.Lock(); c.R.Ops[k] += n; c.R.Events += n; c.mu.Unlock() }
func (c *Ctx) Nontrivial()           { c.mu.Lock(); c.R.Nontrivial = true; c.mu.Unlock() }
func (c *Ctx) Sig(parts ...any) {
	c.mu.Lock()
	c.sigH = append(c.sigH, fmt.Sprint(parts...))
	c.mu.Unlock()
}
func (c *Ctx) ExhaustiveFamily(name string, n int) {
	c.mu.Lock()
	if c.R.Exhaustive == nil {
		c.R.Exhaustive = map[string]int{}
	}
	c.R.Exhaustive[name] += n
	c.mu.Unlock()
}
func (c *Ctx) SetHistory(h any) { c.mu.Lock(); c.R.History = h; c.mu.Unlock() }
func (c *Ctx) SetDump(d string) {
	c.mu.Lock()
	if c.R.Dump == "" {
		if len(d) > 60000 {
			d = d[:60000] + "\n...[truncated]"
		}
		c.R.Dump = d
	}
	c.mu.Unlock()
}

// Finish computes the signature.
func (c *Ctx) Finish() {
	c.mu.Lock()
	defer c.mu.Unlock()
	h := fnv.New64a()
	for _, s := range c.sigH {
		h.Write([]byte(s))
		h.Write([]byte{0})
	}
	if len(c.sigH) == 0 {
		// fall back on params + ops + counters
		b, _ := json.Marshal([]any{c.R.Params, c.R.Ops, c.R.Counters})
		h.Write(b)
	}
	c.R.Signature = fmt.Sprintf("%016x", h.Sum64())
}

// ---------------------------------------------------------------------------
// Registry

type Family struct {
	Name string
	// N returns the number of scenarios for the tier.
	N func(tier string) int
	// Run executes scenario c.Index.
	Run func(c *Ctx)
	// Solo families run one scenario per child process (they swap package-level state or are heavy).
	Solo bool
	// Batch is the number of scenarios per child process (default 25).
	Batch int
}

type Property struct {
	ID          string
	Rule        string   // generation + non-triviality rule (evidence)
	Assumptions []string // evidence
	Families    []Family
	Race        bool // needs the -race build and race mode
	// MinNontrivial is the minimum distinct non-trivial signatures required (else exit 2). Default 2.
	MinNontrivial int
}

var registry = map[string]*Property{}

func Register(p *Property) { registry[p.ID] = p }
func Lookup(id string) *Property {
	return registry[id]
}
func AllIDs() []string {
	var ids []string
	for id := range registry {
		ids = append(ids, id)
	}
	sort.Strings(ids)
	return ids
}

func TierN(quick, thorough int) func(string) int {
	return func(t string) int {
		if t == "thorough" {
			return thorough
		}
		return quick
	}
}

// ---------------------------------------------------------------------------
// Hashing helpers (deterministic decisions)

func HashStr(s string) uint64 {
	h := fnv.New64a()
	h.Write([]byte(s))
	return h.Sum64()
}

func Mix(vs ...uint64) uint64 {
	var x uint64 = 0x243f6a8885a308d3
	for _, v := range vs {
		x ^= v + 0x9e3779b97f4a7c15 + (x << 6) + (x >> 2)
		x *= 0xff51afd7ed558ccd
		x ^= x >> 33
	}
	return x
}

// ---------------------------------------------------------------------------
// Logical clock (behavioural mode only)

var clock atomic.Int64

// Now returns a fresh logical stamp; stamps are totally ordered consistently with happens-before.
func Now() int64 { return clock.Add(1) }

// ---------------------------------------------------------------------------
// Heartbeats: bounded progress without wall-clock verdicts

var beats atomic.Int64
var beatOnce sync.Once

func startBeats() {
	beatOnce.Do(func() {
		go func() {
			for {
				time.Sleep(time.Millisecond)
				beats.Add(1)
			}
		}()
	})
}

func Beats() int64 { startBeats(); return beats.Load() }

// WaitUntil polls cond until it is true or n heartbeats pass. Returns cond's final value.
func WaitUntil(n int, cond func() bool) bool {
	startBeats()
	start := beats.Load()
	for i := 0; ; i++ {
		if cond() {
			return true
		}
		if beats.Load()-start > int64(n) {
			return cond()
		}
		if i < 20 {
			runtime.Gosched()
		} else {
			time.Sleep(200 * time.Microsecond)
		}
	}
}

// AwaitChan waits for ch to be readable/closed for up to n beats.
func AwaitChan[T any](ch <-chan T, n int) (v T, ok bool, got bool) {
	startBeats()
	start := beats.Load()
	t := time.NewTicker(2 * time.Millisecond)
	defer t.Stop()
	for {
		select {
		case v, ok = <-ch:
			return v, ok, true
		case <-t.C:
			if beats.Load()-start > int64(n) {
				select {
				case v, ok = <-ch:
					return v, ok, true
				default:
				}
				return v, false, false
			}
		}
	}
}

// AwaitDone waits for a done channel.
func AwaitDone(ch <-chan struct{}, n int) bool {
	_, _, got := AwaitChan(ch, n)
	return got
}

// Go runs fn in a goroutine and returns a channel closed when it returns.
func Go(fn func()) <-chan struct{} {
	d := make(chan struct{})
	go func() {
		defer close(d)
		fn()
	}()
	return d
}

// ---------------------------------------------------------------------------
// Goroutine dumps

const LibPrefix = "github.com/joeycumines/go-bigbuff."

func DumpAll() string {
	buf := make([]byte, 1<<20)
	for {
		n := runtime.Stack(buf, true)
		if n < len(buf) {
			return string(buf[:n])
		}
		buf = make([]byte, 2*len(buf))
	}
}

// LibGoroutines returns the stacks of goroutines which have a library frame or were created by the library.
func LibGoroutines(dump string) []string {
	var out []string
	for _, g := range strings.Split(dump, "\n\n") {
		if strings.Contains(g, LibPrefix) {
			out = append(out, g)
		}
	}
	return out
}

// LibLeaks polls until no goroutine with a library frame remains (excluding those matching any of the allow
// substrings), for up to n beats. Returns the remaining stacks.
func LibLeaks(n int, allow ...string) []string {
	var rem []string
	WaitUntil(n, func() bool {
		rem = rem[:0]
	outer:
		for _, g := range LibGoroutines(DumpAll()) {
			for _, a := range allow {
				if strings.Contains(g, a) {
					continue outer
				}
			}
			rem = append(rem, g)
		}
		return len(rem) == 0
	})
	return rem
}

// BlockedInLib reports whether the dump has a goroutine whose stack contains all the given substrings.
func StackWith(dump string, subs ...string) string {
outer:
	for _, g := range strings.Split(dump, "\n\n") {
		for _, s := range subs {
			if !strings.Contains(g, s) {
				continue outer
			}
		}
		return g
	}
	return ""
}

// ---------------------------------------------------------------------------
// Misc

func Pick[T any](r *rand.Rand, xs ...T) T { return xs[r.IntN(len(xs))] }

func Chance(r *rand.Rand, p float64) bool { return r.Float64() < p }

// Recover runs fn and returns the recovered panic value (nil if none).
func Recover(fn func()) (p any) {
	defer func() {
		if r := recover(); r != nil {
			p = r
		}
	}()
	fn()
	return nil
}

func Fatalf(format string, args ...any) {
	fmt.Fprintf(os.Stderr, "HARNESS-ERROR: "+format+"\n", args...)
	os.Exit(2)
}
