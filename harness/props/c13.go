package props

import (
	"context"
	"fmt"
	"sync"
	"sync/atomic"
	"time"

	"github.com/anishathalye/porcupine"
	bigbuff "github.com/joeycumines/go-bigbuff"

	"verif/core"
)

// C13 — Channel consumer is lossless, ordered and linearizable over its source channel.

type chKind int

const (
	chGet chKind = iota
	chCommit
	chRollback
	chBuffer
	chClose
	chCancelClose // the constructor context was cancelled: the Channel closes itself (open-ended)
)

var chNames = []string{"Get", "Commit", "Rollback", "Buffer", "Close", "CancelCtx"}

type chIn struct {
	Kind      chKind
	Cancelled bool // the driver cancelled this Get's own context before it returned
}

type chOut struct {
	Err  string
	Val  int
	Vals []int
}

type chState struct {
	committed, buffered, rollback int
	closed                        bool
}

func chApply(s chState, in chIn, out chOut) (chState, bool) {
	switch in.Kind {
	case chGet:
		if out.Err != "" {
			return s, s.closed || in.Cancelled
		}
		if s.closed {
			return s, false
		}
		if s.rollback > 0 {
			if out.Val != s.committed+s.buffered-s.rollback+1 {
				return s, false
			}
			s.rollback--
			return s, true
		}
		if out.Val != s.committed+s.buffered+1 {
			return s, false
		}
		s.buffered++
		return s, true
	case chCommit:
		p := s.buffered - s.rollback
		if out.Err != "" {
			return s, s.closed || p == 0
		}
		if s.closed || p <= 0 {
			return s, false
		}
		s.committed += p
		s.buffered -= p
		return s, true
	case chRollback:
		p := s.buffered - s.rollback
		if out.Err != "" {
			return s, p == 0
		}
		if p <= 0 {
			return s, false
		}
		s.rollback = s.buffered
		return s, true
	case chBuffer:
		if len(out.Vals) != s.buffered {
			return s, false
		}
		for i, v := range out.Vals {
			if v != s.committed+1+i {
				return s, false
			}
		}
		return s, true
	case chClose:
		if out.Err != "" {
			return s, s.closed
		}
		if s.closed {
			return s, false
		}
		s.closed = true
		return s, true
	case chCancelClose:
		s.closed = true
		return s, true
	}
	return s, false
}

func channelModel() porcupine.Model {
	return porcupine.Model{
		Init: func() interface{} { return chState{} },
		Step: func(st, in, out interface{}) (bool, interface{}) {
			n, ok := chApply(st.(chState), in.(chIn), out.(chOut))
			return ok, n
		},
		Equal: func(a, b interface{}) bool { return a.(chState) == b.(chState) },
		DescribeOperation: func(in, out interface{}) string {
			return describeChOp(in.(chIn), out.(chOut))
		},
	}
}

func describeChOp(i chIn, o chOut) string {
	s := chNames[i.Kind]
	if o.Err != "" {
		s += " -> err(" + truncate(o.Err, 40) + ")"
		if i.Cancelled {
			s += "[cancelled]"
		}
		return s
	}
	switch i.Kind {
	case chGet:
		return fmt.Sprintf("%s -> %d", s, o.Val)
	case chBuffer:
		return fmt.Sprintf("%s -> %v", s, o.Vals)
	}
	return s + " -> ok"
}

func init() {
	core.Register(&core.Property{
		ID: "C13",
		Rule: "concurrent: 1-5 goroutines issue Get (own cancellable contexts) / Commit / Rollback / Buffer / Close on one Channel whose source (chan int, <-chan int, chan any; buffered or not) is fed 1,2,3,... by a feeder, closed or ctx-cancelled mid-run in some; histories checked by porcupine against the sequential model, plus end-of-run conservation (committed ++ Buffer() ++ left-in-source == fed, in order); " +
			"seq: every sequence up to length 7 over {feed, Get, Commit, Rollback, Buffer} (complete) compared step by step incl. VerifState; close-race: micro-trials of Close racing a hot Get loop over a pre-filled source (after Done is observed len(source) must not change). " +
			"commit-vs-close: Commit and Close overlapping under mutex contention, an observer reading Buffer() after Done: a Commit that returned nil is not visible as still-pending values after Done. non-trivial = operations overlapped / a rollback with partial re-read occurred / Close landed while the getter was running; distinct = distinct completion-order signatures",
		Assumptions: []string{
			"the Channel is the only receiver of its source, so source values 1,2,3,... identify what was taken",
			"a Get error is legal only when the Channel is closed or the driver cancelled that Get's own context",
		},
		Families: []core.Family{
			{Name: "concurrent-porcupine", N: core.TierN(2000, 120000), Batch: 50, Run: c13Concurrent},
			{Name: "seq-exhaustive", N: core.TierN(5, 25), Batch: 1, Run: c13Seq},
			{Name: "close-race", N: core.TierN(48, 1920), Batch: 3, Run: c13CloseRace},
			{Name: "commit-vs-close", N: core.TierN(40, 400), Batch: 4, Run: c13CommitVsClose},
		},
	})
}

func makeSource(r int, capacity int) (src interface{}, send func(v int, stop <-chan struct{}) bool, closeFn func(), length func() int) {
	switch r % 3 {
	case 0:
		ch := make(chan int, capacity)
		return ch, func(v int, stop <-chan struct{}) bool {
			select {
			case ch <- v:
				return true
			case <-stop:
				return false
			}
		}, func() { close(ch) }, func() int { return len(ch) }
	case 1:
		ch := make(chan int, capacity)
		return (<-chan int)(ch), func(v int, stop <-chan struct{}) bool {
			select {
			case ch <- v:
				return true
			case <-stop:
				return false
			}
		}, func() { close(ch) }, func() int { return len(ch) }
	default:
		ch := make(chan interface{}, capacity)
		return ch, func(v int, stop <-chan struct{}) bool {
			select {
			case ch <- v:
				return true
			case <-stop:
				return false
			}
		}, func() { close(ch) }, func() int { return len(ch) }
	}
}

func c13Concurrent(c *core.Ctx) {
	capacity := core.Pick(c.Rng, 0, 0, 1, 4, 64)
	srcKind := c.Rng.IntN(3)
	src, send, closeSrc, srcLen := makeSource(srcKind, capacity)
	rate := core.Pick(c.Rng, 20*time.Microsecond, 100*time.Microsecond, time.Millisecond)
	cctx, ccancel := context.WithCancel(context.Background())
	defer ccancel()
	ch, err := bigbuff.NewChannel(cctx, rate, src)
	if err != nil {
		c.Violate("newchannel-error", "%v", err)
		return
	}
	p := c.NewPerturb(core.PerturbOpts{P: core.Pick(c.Rng, 0, 0.1, 0.3), Hot: map[string]float64{"channel.get.miss": core.Pick(c.Rng, 0, 0.5, 1)}, HotSleep: 200 * time.Microsecond})
	defer p.Stop()
	h := &histRec{}
	clients := 1 + c.Rng.IntN(5)
	opsPer := 6 + c.Rng.IntN(8)
	ending := core.Pick(c.Rng, "none", "none", "close", "cancel", "close-source")
	var fed atomic.Int64 // sends completed
	stopFeed := make(chan struct{})
	feedN := c.Rng.IntN(clients*opsPer + 1)
	feedSeed := c.Rng.Uint64()
	feedDone := core.Go(func() {
		r := newRand(feedSeed)
		for i := 1; i <= feedN; i++ {
			if !send(i, stopFeed) {
				return
			}
			fed.Store(int64(i))
			if r.IntN(3) == 0 {
				time.Sleep(time.Duration(r.IntN(150)) * time.Microsecond)
			}
		}
		if ending == "close-source" {
			closeSrc()
		}
	})
	record := func(client int, in chIn, call int64, out chOut) {
		h.add(porcupine.Operation{ClientId: client, Input: in, Call: call, Output: out, Return: core.Now()})
	}
	doOp := func(client int, kind chKind, r interface{ IntN(int) int }) {
		switch kind {
		case chGet:
			ctx, cancel := context.WithCancel(context.Background())
			var cmu sync.Mutex
			var cancelStamp int64
			t := time.AfterFunc(time.Duration(20+r.IntN(400))*time.Microsecond, func() {
				cmu.Lock()
				cancelStamp = core.Now()
				cmu.Unlock()
				cancel()
			})
			call := core.Now()
			v, err := ch.Get(ctx)
			ret := core.Now()
			t.Stop()
			cancel()
			cmu.Lock()
			cs := cancelStamp
			cmu.Unlock()
			out := chOut{}
			if err != nil {
				out.Err = err.Error()
			} else {
				n, ok := v.(int)
				if !ok {
					n = -1000
				}
				out.Val = n
			}
			h.add(porcupine.Operation{ClientId: client, Input: chIn{Kind: chGet, Cancelled: cs != 0 && cs < ret}, Call: call, Output: out, Return: ret})
		case chCommit:
			call := core.Now()
			err := ch.Commit()
			out := chOut{}
			if err != nil {
				out.Err = err.Error()
			}
			record(client, chIn{Kind: chCommit}, call, out)
		case chRollback:
			call := core.Now()
			err := ch.Rollback()
			out := chOut{}
			if err != nil {
				out.Err = err.Error()
			}
			record(client, chIn{Kind: chRollback}, call, out)
		case chBuffer:
			call := core.Now()
			vs, ok := toInts(ch.Buffer())
			if !ok {
				vs = []int{-1000}
			}
			record(client, chIn{Kind: chBuffer}, call, chOut{Vals: vs})
		case chClose:
			call := core.Now()
			err := ch.Close()
			out := chOut{}
			if err != nil {
				out.Err = err.Error()
			}
			record(client, chIn{Kind: chClose}, call, out)
		}
	}
	var wg sync.WaitGroup
	for cl := 0; cl < clients; cl++ {
		wg.Add(1)
		seed := c.Rng.Uint64()
		go func(cl int) {
			defer wg.Done()
			r := newRand(seed)
			for i := 0; i < opsPer; i++ {
				x := r.IntN(100)
				switch {
				case x < 50:
					doOp(cl, chGet, r)
				case x < 68:
					doOp(cl, chCommit, r)
				case x < 84:
					doOp(cl, chRollback, r)
				case x < 97:
					doOp(cl, chBuffer, r)
				default:
					if ending == "close" {
						doOp(cl, chClose, r)
					} else {
						doOp(cl, chBuffer, r)
					}
				}
			}
		}(cl)
	}
	if ending == "cancel" {
		wg.Add(1)
		d := time.Duration(c.Rng.IntN(800)) * time.Microsecond
		go func() {
			defer wg.Done()
			time.Sleep(d)
			call := core.Now()
			ccancel()
			if !core.AwaitDone(ch.Done(), 10000) {
				h.add(porcupine.Operation{ClientId: 99, Input: chIn{Kind: chCancelClose}, Call: call, Output: chOut{}, Return: openStamp})
				return
			}
			record(99, chIn{Kind: chCancelClose}, call, chOut{})
		}()
	}
	if !core.AwaitDone(core.Go(wg.Wait), 30000) {
		c.Violate("hang", "Channel operations did not return")
		c.SetDump(core.DumpAll())
		close(stopFeed)
		return
	}
	close(stopFeed)
	core.AwaitDone(feedDone, 5000)
	// final quiescent observations (recorded as operations of client 100)
	doOp(100, chBuffer, nil)
	h.mu.Lock()
	ops := append([]porcupine.Operation(nil), h.ops...)
	h.mu.Unlock()
	model := channelModel()
	kinds := map[string]int{}
	rollbacks := 0
	for _, op := range ops {
		kinds[chNames[op.Input.(chIn).Kind]]++
		if op.Input.(chIn).Kind == chRollback && op.Output.(chOut).Err == "" {
			rollbacks++
		}
		// nothing that was not fed, no zero values
		if op.Input.(chIn).Kind == chGet && op.Output.(chOut).Err == "" {
			if v := op.Output.(chOut).Val; v < 1 || v > feedN {
				c.Violate("foreign-value", "Get returned %d, which the source never carried (fed 1..%d)", v, feedN)
			}
		}
	}
	for k, n := range kinds {
		c.Op(k, n)
	}
	c.R.Overlaps = countOverlaps(ops)
	switch checkLin(model, ops, 20*time.Second) {
	case porcupine.Ok:
		c.R.PorcOK++
	case porcupine.Unknown:
		c.R.PorcUnk++
		c.Inconclusive("porcupine timed out on %d operations", len(ops))
	case porcupine.Illegal:
		c.R.PorcBad++
		c.Violate("not-linearizable", "Channel history (%d ops) is not linearizable against the sequential model", len(ops))
		c.SetHistory(describeHistory(ops, model.DescribeOperation, 200))
	}
	// conservation at quiescence: committed ++ Buffer() ++ left-in-source == fed
	buf, _ := toInts(ch.Buffer())
	left := srcLen()
	f := int(fed.Load())
	committed := 0
	if len(buf) > 0 {
		committed = buf[0] - 1
	} else {
		committed = f - left // nothing pending: everything taken was committed
	}
	for i, v := range buf {
		if v != committed+1+i {
			c.Violate("buffer-order", "Buffer() = %v is not a contiguous run of the source", buf)
			break
		}
	}
	if committed+len(buf)+left != f {
		c.Violate("conservation", "fed=%d but committed=%d + pending=%d + left-in-source=%d", f, committed, len(buf), left)
	}
	maxGot := 0
	for _, op := range ops {
		if op.Input.(chIn).Kind == chGet && op.Output.(chOut).Err == "" && op.Output.(chOut).Val > maxGot {
			maxGot = op.Output.(chOut).Val
		}
	}
	if maxGot != f-left {
		c.Violate("lost-value", "%d values were taken from the source (fed=%d, left=%d) but the highest value any Get returned is %d", f-left, f, left, maxGot)
	}
	_ = ch.Close()
	if !core.AwaitDone(ch.Done(), 5000) {
		c.Violate("done-not-closed", "Done not closed after Close")
	}
	if c.R.Overlaps > 0 || rollbacks > 0 {
		c.Nontrivial()
	}
	c.Param("opts", map[string]any{"clients": clients, "ops_per": opsPer, "cap": capacity, "src": srcKind, "rate": rate.String(), "ending": ending, "feed": feedN})
	c.Sig(historySig(ops, model.DescribeOperation))
	if c.Index < 2 && !c.Violated() {
		c.SetHistory(describeHistory(ops, model.DescribeOperation, 40))
	}
}

// c13Seq: complete enumeration of sequences up to length 7 over {feed, Get, Commit, Rollback, Buffer}; the scenario
// index selects the first letter (quick) or the first two letters (thorough).
func c13Seq(c *core.Ctx) {
	const (
		aFeed = iota
		aGet
		aCommit
		aRollback
		aBuffer
	)
	L := 7
	var prefix []int
	if c.Thorough() {
		L = 8
		prefix = []int{c.Index / 5, c.Index % 5}
	} else {
		prefix = []int{c.Index}
	}
	n, steps := 0, 0
	// three runs in four use an interface-typed source on which some values are nil interfaces (legal values):
	// a nil is then identified by its position (the model is deterministic), anything else by its id
	runNo := 0
	run := func(seq []int) {
		runNo++
		pattern := runNo % 4 // 0: chan int source; 1: odd ids are nil; 2: even ids are nil; 3: every value is nil
		withNils := pattern != 0
		isNil := func(id int) bool {
			return pattern == 3 || (pattern == 1 && id%2 == 1) || (pattern == 2 && id%2 == 0)
		}
		decode := func(v interface{}, expected int) int {
			if v == nil {
				if isNil(expected) {
					return expected
				}
				return -1
			}
			n, ok := v.(int)
			if !ok || isNil(n) {
				return -1
			}
			return n
		}
		var src chan interface{}
		var srcInt chan int
		var source interface{}
		if withNils {
			src = make(chan interface{}, len(seq)+1)
			source = src
		} else {
			srcInt = make(chan int, len(seq)+1)
			source = srcInt
		}
		ch, err := bigbuff.NewChannel(nil, time.Millisecond, source)
		if err != nil {
			c.Violate("newchannel-error", "%v", err)
			return
		}
		defer ch.Close()
		st := chState{}
		fedN := 0
		var trace []string
		for _, a := range seq {
			in, out := chIn{}, chOut{}
			switch a {
			case aFeed:
				fedN++
				switch {
				case !withNils:
					srcInt <- fedN
				case isNil(fedN):
					src <- nil
				default:
					src <- fedN
				}
				trace = append(trace, "feed")
				continue
			case aGet:
				if st.rollback == 0 && st.committed+st.buffered >= fedN {
					continue // would block: nothing to get
				}
				in.Kind = chGet
				v, err := ch.Get(context.Background())
				if err != nil {
					out.Err = err.Error()
				} else {
					expected := st.committed + st.buffered + 1
					if st.rollback > 0 {
						expected = st.committed + st.buffered - st.rollback + 1
					}
					out.Val = decode(v, expected)
				}
			case aCommit:
				in.Kind = chCommit
				if err := ch.Commit(); err != nil {
					out.Err = err.Error()
				}
			case aRollback:
				in.Kind = chRollback
				if err := ch.Rollback(); err != nil {
					out.Err = err.Error()
				}
			case aBuffer:
				in.Kind = chBuffer
				pending := ch.Buffer()
				for i, v := range pending {
					out.Vals = append(out.Vals, decode(v, st.committed+1+i))
				}
				// what Buffer returned is the caller's: overwriting it must not change what the Channel holds
				for i := range pending {
					pending[i] = "overwritten by the caller"
				}
			}
			steps++
			trace = append(trace, describeChOp(in, out))
			ns, ok := chApply(st, in, out)
			if !ok {
				c.Violate("seq-model-mismatch", "%s is not what the sequential model allows in state %+v; trace=%v", describeChOp(in, out), st, trace)
				return
			}
			st = ns
			if b, r := ch.VerifState(); b != st.buffered || r != st.rollback {
				c.Violate("seq-state-mismatch", "internal state (buffered=%d, rollback=%d) differs from the model %+v; trace=%v", b, r, st, trace)
				return
			}
		}
		if left := len(src) + len(srcInt); st.committed+st.buffered+left != fedN {
			c.Violate("conservation", "fed=%d but committed=%d + pending=%d + left=%d; trace=%v", fedN, st.committed, st.buffered, left, trace)
		}
	}
	var rec func(seq []int)
	rec = func(seq []int) {
		run(seq)
		n++
		if len(seq) == L || c.Violated() {
			return
		}
		for a := 0; a < 5; a++ {
			rec(append(append([]int(nil), seq...), a))
		}
	}
	rec(prefix)
	c.Op("seq_step", steps)
	c.Count("sequences", n)
	c.ExhaustiveFamily(fmt.Sprintf("all sequences of length<=%d over {feed,Get,Commit,Rollback,Buffer} (in turn on a chan int source and on chan interface{} sources where the odd / the even / all values are nil interfaces)", L), n)
	c.Nontrivial()
	c.Sig("c13seq", c.Index, n)
}

// c13CloseRace: micro-trials of Close racing a hot Get loop over a pre-filled buffered source.
func c13CloseRace(c *core.Ctx) {
	trials := 1500
	if c.Thorough() {
		trials = 5000
	}
	const fill = 256
	hits := 0
	for t := 0; t < trials && !c.Violated(); t++ {
		src := make(chan int, fill)
		for i := 1; i <= fill; i++ {
			src <- i
		}
		ch, err := bigbuff.NewChannel(nil, time.Millisecond, src)
		if err != nil {
			c.Violate("newchannel-error", "%v", err)
			return
		}
		var committed atomic.Int64
		var got atomic.Int64
		getterDone := make(chan struct{})
		go func() {
			defer close(getterDone)
			n := 0
			for {
				_, err := ch.Get(nil)
				if err != nil {
					return
				}
				n++
				got.Add(1)
				if n%7 == 0 {
					if ch.Commit() == nil {
						committed.Store(int64(n))
					}
				}
				if n >= fill {
					return
				}
			}
		}()
		spin(c.Rng.IntN(300))
		if c.Rng.IntN(4) == 0 {
			time.Sleep(time.Duration(c.Rng.IntN(20)) * time.Microsecond)
		}
		_ = ch.Close()
		<-ch.Done()
		l1 := len(src)
		g1 := got.Load()
		<-getterDone
		l2 := len(src)
		buf := ch.Buffer()
		if l1 != l2 {
			c.Violate("taken-after-done", "trial %d: len(source) went from %d to %d after Done was observed closed", t, l1, l2)
		}
		if taken := fill - l2; taken != int(committed.Load())+len(buf) {
			c.Violate("conservation", "trial %d: %d values taken from the source but committed=%d + Buffer()=%d", t, taken, committed.Load(), len(buf))
		}
		if g1 > 0 && g1 < fill {
			hits++
		}
	}
	c.Op("close_race_trial", trials)
	c.Count("close_landed_mid_run", hits)
	if hits > 0 {
		c.Nontrivial()
	}
	c.Sig("closerace", c.Index, hits > 0)
}

func spin(n int) {
	x := 0
	for i := 0; i < n*10; i++ {
		x += i
	}
	if x == -1 {
		fmt.Print()
	}
}

var _ = sync.Mutex{}

// c13CommitVsClose: a Commit and a Close overlap while other goroutines keep the Channel's mutex busy with Buffer()
// calls; an observer waits for Done and then reads Buffer(). A Commit that reports success took effect before the
// Close (after it, Commit fails), hence before Done was closed: what the observer reads after Done cannot still hold
// the values that Commit dropped.
func c13CommitVsClose(c *core.Ctx) {
	trials := 60
	if c.Thorough() {
		trials = 80
	}
	hits := 0
	for t := 0; t < trials && !c.Violated(); t++ {
		n := 200 + c.Rng.IntN(2000)
		src := make(chan int, n)
		for i := 1; i <= n; i++ {
			src <- i
		}
		ch, err := bigbuff.NewChannel(nil, time.Millisecond, src)
		if err != nil {
			c.Violate("newchannel-error", "%v", err)
			return
		}
		for i := 0; i < n; i++ {
			if _, err := ch.Get(context.Background()); err != nil {
				c.Violate("get-error", "%v", err)
				return
			}
		}
		stop := make(chan struct{})
		var busy sync.WaitGroup
		for g := 0; g < 3; g++ {
			busy.Add(1)
			go func() {
				defer busy.Done()
				for {
					select {
					case <-stop:
						return
					default:
						ch.Buffer()
					}
				}
			}()
		}
		var commitErr error
		var seenAfterDone int
		spinA, spinB := c.Rng.IntN(60), c.Rng.IntN(60)
		committed := core.Go(func() { spin(spinA); commitErr = ch.Commit() })
		closed := core.Go(func() { spin(spinB); ch.Close() })
		observed := core.Go(func() {
			<-ch.Done()
			seenAfterDone = len(ch.Buffer())
		})
		ok := core.AwaitDone(committed, 10000) && core.AwaitDone(closed, 10000) && core.AwaitDone(observed, 10000)
		close(stop)
		busy.Wait()
		if !ok {
			c.Violate("blocked", "Commit / Close / Buffer did not all return")
			c.SetDump(core.DumpAll())
			return
		}
		if commitErr == nil {
			hits++
			if seenAfterDone != 0 {
				c.Violate("commit-after-done", "Commit returned nil, yet Buffer() called after Done was closed still returned %d uncommitted values (now %d): the Commit took effect after the Channel was closed", seenAfterDone, len(ch.Buffer()))
			}
		} else if seenAfterDone != n {
			c.Violate("commit-error-but-dropped", "Commit returned %v, but Buffer() after Done holds %d of %d values", commitErr, seenAfterDone, n)
		}
	}
	c.Op("trial", trials)
	c.Count("commits_that_won", hits)
	c.Nontrivial()
	c.Sig("commit-vs-close", c.Index)
}
