#!/bin/bash
# Dev tool: run each hand mutant (tools/mutants/hand.txt) against its property's check on a scratch copy.
# usage: tools/handmatrix.sh [tier] [grep filter]
TIER=${1:-quick}; FILTER=${2:-.}
V=$(cd "$(dirname "$0")/.." && pwd)
grep -v '^#' "$V/tools/mutants/hand.txt" | grep -E "$FILTER" | while IFS='|' read -r prop name mut; do
  out=$("$V/tools/mut.sh" "$mut" "$prop" "$TIER" 2>&1)
  rc=$(echo "$out" | grep -oE "exit=[0-9]+" | tail -1)
  key=$(echo "$out" | grep -oE "key=[^:]+" | head -1)
  case "$out" in *"DID NOT CHANGE"*) rc="NOCHANGE";; *"DOES NOT BUILD"*) rc="NOBUILD";; esac
  echo "$prop|$name|$rc|$key"
done
