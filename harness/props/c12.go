package props

import (
	"context"
	"fmt"
	"math"
	"strings"
	"sync"
	"sync/atomic"
	"time"

	bigbuff "github.com/joeycumines/go-bigbuff"

	"verif/core"
)

// C12 — Close/cancel completes, fails later calls cleanly, leaves no goroutine behind.

func init() {
	core.Register(&core.Property{
		ID: "C12",
		Rule: "generated programs: a random subset of components {Buffer+consumers with producers and getters, Channel over a fed source, Notifier.SubscribeCancel subscriptions with publishes, Exclusive calls of several styles, Workers calls, Worker Do/done cycles, LinearAttempt, Combine/Conflated/ChainAfterFunc, direct WaitCond, Range} is started, " +
			"operated concurrently, and then closed/cancelled in a random order with the closes racing in-flight operations; contexts handed to the library are a mix of cancellable ones (all cancelled at the end) and context.Background(); " +
			"oracle per handle: Close returns within the bound (no uncommitted reads, no Get left blocked), Done is closed afterwards, later Put/NewConsumer/Get/Commit return an error without blocking or panicking, a second Close returns an error, a closed Buffer's consumers are closed and its Slice is unchanged; " +
			"oracle at the end state: no goroutine with a library frame (or created by the library) is alive after max(cooldown)+3000 heartbeats (the leaked stack is the witness). non-trivial = at least one close/cancel raced an in-flight operation; distinct = distinct (component set, close order, context kinds) signatures",
		Assumptions: []string{"leaked registrations that hold no goroutine (e.g. AfterFunc entries) are invisible to this oracle; the statement speaks of goroutines", "the harness keeps the provisos: it commits or rolls back before closing a consumer and never leaves a Get blocked on a consumer it closes directly"},
		Families: []core.Family{
			{Name: "programs", N: core.TierN(600, 32000), Batch: 15, Run: c12Program},
			{Name: "close-semantics", N: core.TierN(400, 16000), Batch: 20, Run: c12CloseSemantics},
		},
	})
}

type c12Prog struct {
	c        *core.Ctx
	mu       sync.Mutex
	probs    []anomaly
	wg       sync.WaitGroup // harness goroutines
	cancels  []context.CancelFunc
	closers  []func()
	raced    atomic.Int64
	cooldown time.Duration
}

func (p *c12Prog) problem(key, format string, args ...any) {
	p.mu.Lock()
	if len(p.probs) < 20 {
		p.probs = append(p.probs, anomaly{"", key, fmt.Sprintf(format, args...)})
	}
	p.mu.Unlock()
}

// ctx returns either a cancellable context (cancelled at the end of the program) or Background.
func (p *c12Prog) ctx() (context.Context, string) {
	if p.c.Rng.IntN(3) == 0 {
		return context.Background(), "background"
	}
	ctx, cancel := context.WithCancel(context.Background())
	p.mu.Lock()
	p.cancels = append(p.cancels, cancel)
	p.mu.Unlock()
	return ctx, "cancellable"
}

func (p *c12Prog) goFn(fn func()) {
	p.wg.Add(1)
	go func() {
		defer p.wg.Done()
		if pv := core.Recover(fn); pv != nil {
			p.problem("panic", "a library call panicked: %v", pv)
		}
	}()
}

// bounded runs fn and reports if it does not return.
func (p *c12Prog) bounded(what string, fn func()) bool {
	d := core.Go(func() {
		if pv := core.Recover(fn); pv != nil {
			p.problem("panic", "%s panicked: %v", what, pv)
		}
	})
	if !core.AwaitDone(d, 10000) {
		p.problem("blocked", "%s did not return:\n%s", what, core.DumpAll())
		return false
	}
	return true
}

func (p *c12Prog) checkBufferClosed(b *bigbuff.Buffer, conss []bigbuff.Consumer, before []interface{}) {
	if !core.AwaitDone(b.Done(), 3000) {
		p.problem("done-not-closed", "Buffer.Done not closed after Close returned")
	}
	p.bounded("Put after close", func() {
		if err := b.Put(context.Background(), 1); err == nil {
			p.problem("put-after-close", "Put succeeded on a closed Buffer")
		}
	})
	p.bounded("NewConsumer after close", func() {
		if _, err := b.NewConsumer(); err == nil {
			p.problem("newconsumer-after-close", "NewConsumer succeeded on a closed Buffer")
		}
	})
	p.bounded("second Buffer.Close", func() {
		if err := b.Close(); err == nil {
			p.problem("second-close-nil", "second Buffer.Close returned nil")
		}
	})
	for i, cons := range conss {
		if !core.AwaitDone(cons.Done(), 3000) {
			p.problem("consumer-not-closed", "consumer %d of a closed Buffer is not closed", i)
			continue
		}
		cons := cons
		p.bounded("consumer Get after close", func() {
			if _, err := cons.Get(context.Background()); err == nil {
				p.problem("get-after-close", "Get succeeded on a closed consumer")
			}
		})
		p.bounded("consumer Commit after close", func() {
			if err := cons.Commit(); err == nil {
				p.problem("commit-after-close", "Commit succeeded on a closed consumer")
			}
		})
		p.bounded("second consumer Close", func() {
			if err := cons.Close(); err == nil {
				p.problem("second-close-nil", "second consumer Close returned nil")
			}
		})
	}
	if before != nil {
		// Close leaves the contents readable; the cleaner may still have evicted a consumed prefix meanwhile (cooldown),
		// so what remains must be a suffix of what was there
		after := b.Slice()
		if len(after) > len(before) || fmt.Sprint(after) != fmt.Sprint(before[len(before)-len(after):]) {
			p.problem("slice-changed-by-close", "Slice() was %v before Close and %v after", before, after)
		}
	}
}

func (p *c12Prog) bufferComponent() {
	c := p.c
	cooldown := core.Pick(c.Rng, 0, 200*time.Microsecond, 2*time.Millisecond, 10*time.Millisecond)
	if cooldown > p.cooldown {
		p.cooldown = cooldown
	}
	b := newBuffer(cleanerSpec{}, cooldown, nil)
	k := 1 + c.Rng.IntN(3)
	conss := make([]bigbuff.Consumer, k)
	for i := range conss {
		conss[i], _ = b.NewConsumer()
	}
	var stopProd atomic.Bool
	prodDone := make(chan struct{})
	p.goFn(func() {
		defer close(prodDone)
		for i := 0; i < 200 && !stopProd.Load(); i++ {
			if err := b.Put(context.Background(), i); err != nil {
				return
			}
			if i%7 == 0 {
				time.Sleep(20 * time.Microsecond)
			}
		}
	})
	// read-only Diff calls from another goroutine keep running while everything is operated and closed
	stopDiff := make(chan struct{})
	if c.Rng.IntN(2) == 0 {
		for _, cons := range conss {
			cons := cons
			p.goFn(func() {
				for {
					select {
					case <-stopDiff:
						return
					default:
					}
					b.Diff(cons)
					time.Sleep(20 * time.Microsecond)
				}
			})
		}
	}
	mode := core.Pick(c.Rng, "consumers-then-buffer", "buffer-directly", "buffer-directly-quiescent")
	// closing a consumer directly requires that no Get is left blocked on it (the statement's proviso): in that mode
	// the getters use a context the component cancels first; otherwise they may even use context.Background(), and
	// it is Buffer.Close that must end their blocked Gets
	gctx, gcancel := context.WithCancel(context.Background())
	p.mu.Lock()
	p.cancels = append(p.cancels, gcancel)
	p.mu.Unlock()
	getterDone := make([]chan struct{}, k)
	for i, cons := range conss {
		cons := cons
		ctx := gctx
		if mode != "consumers-then-buffer" {
			ctx, _ = p.ctx()
		}
		d := make(chan struct{})
		getterDone[i] = d
		useRange := c.Rng.IntN(4) == 0
		p.goFn(func() {
			defer close(d)
			if useRange {
				_ = bigbuff.Range(ctx, cons, func(int, interface{}) bool { return true })
				_ = cons.Rollback()
				return
			}
			for {
				if _, err := cons.Get(ctx); err != nil {
					_ = cons.Rollback() // keep the proviso: nothing left uncommitted
					return
				}
				_ = cons.Commit()
			}
		})
	}
	p.closers = append(p.closers, func() {
		switch mode {
		case "consumers-then-buffer":
			gcancel()
			for _, d := range getterDone {
				if !core.AwaitDone(d, 10000) {
					p.problem("blocked", "a Get whose context was cancelled never returned:\n%s", core.DumpAll())
					return
				}
			}
			for i, cons := range conss {
				cons := cons
				if !p.bounded(fmt.Sprintf("consumer %d Close", i), func() { _ = cons.Close() }) {
					return
				}
				if !core.AwaitDone(cons.Done(), 3000) {
					p.problem("done-not-closed", "consumer.Done not closed after Close returned")
				}
			}
			stopProd.Store(true)
			<-prodDone
			if !p.bounded("Buffer.Close", func() {
				if err := b.Close(); err != nil {
					p.problem("close-error", "first Buffer.Close returned %v", err)
				}
			}) {
				return
			}
			p.checkBufferClosed(b, conss, nil)
		case "buffer-directly":
			p.raced.Add(1)
			if !p.bounded("Buffer.Close racing producers and getters", func() {
				if err := b.Close(); err != nil {
					p.problem("close-error", "first Buffer.Close returned %v", err)
				}
			}) {
				return
			}
			stopProd.Store(true)
			<-prodDone
			p.checkBufferClosed(b, conss, nil)
		default:
			stopProd.Store(true)
			<-prodDone
			// getters drain and block in Get; Close must still complete (their Gets fail, they roll back)
			time.Sleep(200 * time.Microsecond)
			before := b.Slice()
			if !p.bounded("Buffer.Close", func() {
				if err := b.Close(); err != nil {
					p.problem("close-error", "first Buffer.Close returned %v", err)
				}
			}) {
				return
			}
			// values evicted between the snapshot and Close are legitimate: compare suffixes
			after := b.Slice()
			if len(after) > len(before) || fmt.Sprint(after) != fmt.Sprint(before[len(before)-len(after):]) {
				p.problem("slice-changed-by-close", "Slice() was %v before Close and %v after", before, after)
			}
			p.checkBufferClosed(b, conss, nil)
		}
		for _, d := range getterDone {
			if !core.AwaitDone(d, 10000) {
				p.problem("blocked", "a Get/Range on a closed Buffer's consumer never returned:\n%s", core.DumpAll())
			}
		}
		close(stopDiff)
	})
}

func (p *c12Prog) channelComponent() {
	c := p.c
	src := make(chan int, 8)
	ctx, kind := p.ctx()
	var cancelOwn context.CancelFunc
	closeBy := core.Pick(c.Rng, "Close", "cancel")
	if closeBy == "cancel" {
		ctx, cancelOwn = context.WithCancel(ctx)
		kind = "cancellable"
		p.cancels = append(p.cancels, cancelOwn)
	}
	if c.Rng.IntN(4) == 0 && closeBy == "Close" {
		ctx = nil
	}
	ch, err := bigbuff.NewChannel(ctx, core.Pick(c.Rng, 50*time.Microsecond, time.Millisecond), src)
	if err != nil {
		p.problem("newchannel-error", "%v", err)
		return
	}
	_ = kind
	stopFeed := make(chan struct{})
	p.goFn(func() {
		for i := 0; ; i++ {
			select {
			case src <- i:
			case <-stopFeed:
				return
			}
		}
	})
	getters := 1 + c.Rng.IntN(2)
	gd := make([]chan struct{}, getters)
	for i := range gd {
		d := make(chan struct{})
		gd[i] = d
		p.goFn(func() {
			defer close(d)
			for {
				if _, err := ch.Get(context.Background()); err != nil {
					return
				}
				_ = ch.Commit()
			}
		})
	}
	p.closers = append(p.closers, func() {
		p.raced.Add(1)
		if closeBy == "Close" {
			if !p.bounded("Channel.Close", func() {
				if err := ch.Close(); err != nil {
					p.problem("close-error", "first Channel.Close returned %v", err)
				}
			}) {
				return
			}
		} else {
			cancelOwn()
		}
		if !core.AwaitDone(ch.Done(), 5000) {
			p.problem("done-not-closed", "Channel.Done not closed after %s", closeBy)
		}
		close(stopFeed)
		for _, d := range gd {
			if !core.AwaitDone(d, 10000) {
				p.problem("blocked", "a Get on a closed Channel never returned:\n%s", core.DumpAll())
			}
		}
		p.bounded("Channel.Get after close", func() {
			if _, err := ch.Get(context.Background()); err == nil {
				p.problem("get-after-close", "Get succeeded on a closed Channel")
			}
		})
		p.bounded("Channel.Commit after close", func() {
			if err := ch.Commit(); err == nil {
				p.problem("commit-after-close", "Commit succeeded on a closed Channel")
			}
		})
		p.bounded("second Channel.Close", func() {
			if err := ch.Close(); err == nil {
				p.problem("second-close-nil", "second Channel.Close returned nil")
			}
		})
	})
}

func (p *c12Prog) notifierComponent() {
	c := p.c
	var n bigbuff.Notifier
	k := 1 + c.Rng.IntN(3)
	var cancels []context.CancelFunc
	chans := make([]chan int, k)
	for i := range chans {
		chans[i] = make(chan int, 64)
		ctx, _ := p.ctx()
		cancels = append(cancels, n.SubscribeCancel(ctx, "k", chans[i]))
	}
	for i := 0; i < 5; i++ {
		n.Publish("k", i)
	}
	p.closers = append(p.closers, func() {
		for _, cancel := range cancels {
			cancel()
		}
		// the asynchronous Unsubscribe completes: a publish then reaches nobody
		core.WaitUntil(3000, func() bool {
			for _, ch := range chans {
				for len(ch) > 0 {
					<-ch
				}
			}
			n.Publish("k", 99)
			for _, ch := range chans {
				if len(ch) != 0 {
					return false
				}
			}
			return true
		})
	})
}

func (p *c12Prog) exclusiveComponent() {
	c := p.c
	e := new(bigbuff.Exclusive)
	calls := 2 + c.Rng.IntN(8)
	for i := 0; i < calls; i++ {
		i := i
		style := c.Rng.IntN(4)
		p.goFn(func() {
			fn := func() (interface{}, error) { time.Sleep(30 * time.Microsecond); return i, nil }
			switch style {
			case 0:
				e.Call(i%2, fn)
			case 1:
				e.CallAfter(i%2, fn, 100*time.Microsecond)
			case 2:
				<-e.CallAsync(i%2, fn)
			default:
				e.Start(i%2, fn)
			}
		})
	}
	p.closers = append(p.closers, func() {})
}

func (p *c12Prog) workersComponent() {
	c := p.c
	w := new(bigbuff.Workers)
	calls := 2 + c.Rng.IntN(10)
	for i := 0; i < calls; i++ {
		count := 1 + c.Rng.IntN(3)
		p.goFn(func() {
			w.Call(count, func() (interface{}, error) { time.Sleep(20 * time.Microsecond); return nil, nil })
		})
	}
	p.closers = append(p.closers, func() { p.bounded("Workers.Wait", w.Wait) })
}

func (p *c12Prog) workerComponent() {
	c := p.c
	var w bigbuff.Worker
	holders := 1 + c.Rng.IntN(4)
	for i := 0; i < holders; i++ {
		d := time.Duration(c.Rng.IntN(300)) * time.Microsecond
		p.goFn(func() {
			done := w.Do(func(stop <-chan struct{}) { <-stop })
			time.Sleep(d)
			done()
		})
	}
	p.closers = append(p.closers, func() {})
}

func (p *c12Prog) attemptComponent() {
	c := p.c
	ctx, kind := p.ctx()
	count := core.Pick(c.Rng, 1, 3, 20)
	if kind == "background" {
		count = core.Pick(c.Rng, 1, 3) // must run to completion by itself
	}
	ch := bigbuff.LinearAttempt(ctx, core.Pick(c.Rng, 50*time.Microsecond, 500*time.Microsecond), count)
	abandon := kind == "cancellable" && c.Rng.IntN(2) == 0
	if !abandon {
		p.goFn(func() {
			for range ch {
			}
		})
	}
	p.closers = append(p.closers, func() {})
}

func (p *c12Prog) contextComponent() {
	c := p.c
	a, _ := p.ctx()
	b, _ := p.ctx()
	own, ownCancel := context.WithCancel(context.Background())
	switch c.Rng.IntN(3) {
	case 0:
		_ = bigbuff.CombineContext(a, b, own, nil)
	case 1:
		_, cancel := bigbuff.ConflatedContext(a, b, own)
		p.closers = append(p.closers, func() { cancel() })
	default:
		bigbuff.ChainAfterFunc(a, own, func() {})
	}
	p.closers = append(p.closers, func() { ownCancel() })
}

func (p *c12Prog) waitcondComponent() {
	c := p.c
	var mu sync.Mutex
	cond := sync.NewCond(&mu)
	ready := false
	ctx, kind := p.ctx()
	end := core.Pick(c.Rng, "signal", "cancel")
	_ = kind
	var cancelOwn context.CancelFunc
	if end == "cancel" {
		ctx, cancelOwn = context.WithCancel(ctx)
		p.cancels = append(p.cancels, cancelOwn)
	}
	p.goFn(func() {
		mu.Lock()
		defer mu.Unlock()
		_ = bigbuff.WaitCond(ctx, cond, func() bool { return ready })
	})
	p.closers = append(p.closers, func() {
		if end == "signal" {
			mu.Lock()
			ready = true
			cond.Broadcast()
			mu.Unlock()
		} else {
			cancelOwn()
		}
	})
}

func c12Program(c *core.Ctx) {
	if leaks := core.LibLeaks(3000); len(leaks) > 0 {
		c.Inconclusive("library goroutines from an earlier scenario are still alive: %s", firstLineOf(leaks[0]))
		return
	}
	p := &c12Prog{c: c}
	pt := c.NewPerturb(core.PerturbOpts{P: core.Pick(c.Rng, 0, 0.05, 0.2)})
	comps := []struct {
		name string
		fn   func()
	}{
		{"buffer", p.bufferComponent}, {"channel", p.channelComponent}, {"notifier", p.notifierComponent}, {"exclusive", p.exclusiveComponent},
		{"workers", p.workersComponent}, {"worker", p.workerComponent}, {"attempt", p.attemptComponent}, {"contexts", p.contextComponent}, {"waitcond", p.waitcondComponent},
	}
	var used []string
	for _, comp := range comps {
		if c.Rng.IntN(3) == 0 {
			comp.fn()
			used = append(used, comp.name)
		}
	}
	if len(used) == 0 {
		p.bufferComponent()
		used = append(used, "buffer")
	}
	time.Sleep(time.Duration(c.Rng.IntN(800)) * time.Microsecond)
	// close in a random order
	c.Rng.Shuffle(len(p.closers), func(i, j int) { p.closers[i], p.closers[j] = p.closers[j], p.closers[i] })
	// (the closers make their Close calls under a bound of their own; the read-only calls around them — Slice, Size,
	// Diff on a closed handle — are covered by this one)
	if !core.AwaitDone(core.Go(func() {
		for _, cl := range p.closers {
			cl()
		}
	}), 40000) {
		p.problem("blocked", "closing the handles and reading them back (Slice/Size/Diff/Get on closed handles) did not complete:\n%s", core.DumpAll())
	}
	for _, cancel := range p.cancels {
		cancel()
	}
	if !core.AwaitDone(core.Go(p.wg.Wait), 20000) {
		p.problem("blocked", "calls did not return after every handle was closed and every context cancelled:\n%s", core.DumpAll())
	}
	pt.Stop()
	bound := int(p.cooldown/time.Millisecond)*2 + 3000
	if len(p.probs) == 0 {
		if leaks := core.LibLeaks(bound); len(leaks) > 0 {
			c.Violate("goroutine-leak:"+leakKey(leaks[0]), "%d library goroutine(s) still alive after every handle was closed, every context cancelled and every call returned (components %v); first:\n%s", len(leaks), used, leaks[0])
			c.SetDump(strings.Join(leaks, "\n\n"))
		}
	}
	for _, a := range p.probs {
		msg := a.Msg
		if i := strings.Index(msg, "\ngoroutine "); i >= 0 {
			c.SetDump(msg[i:])
			msg = msg[:i]
		}
		c.Violate(a.Key, "%s (components %v)", msg, used)
	}
	c.Op("component", len(used))
	c.Op("close", len(p.closers))
	if p.raced.Load() > 0 {
		c.Nontrivial()
	}
	c.Param("components", strings.Join(used, ","))
	c.Sig(used, len(p.cancels))
	if c.Index < 2 {
		c.SetHistory(fmt.Sprintf("components=%v cancellable_contexts=%d closers=%d", used, len(p.cancels), len(p.closers)))
	}
}

func leakKey(stack string) string {
	for _, line := range strings.Split(stack, "\n") {
		if i := strings.Index(line, core.LibPrefix); i >= 0 {
			f := line[i+len(core.LibPrefix):]
			if j := strings.IndexAny(f, "( "); j > 0 && !strings.HasPrefix(f, "(") {
				f = f[:j]
			} else if j := strings.Index(f, ")."); j > 0 {
				k := strings.IndexAny(f[j+2:], "( ")
				if k > 0 {
					f = f[:j+2+k]
				}
			}
			return f
		}
	}
	return "unknown"
}

// c12CloseSemantics: sequential, per-handle close semantics in isolation (incl. Rollback/Get sequences around Close).
func c12CloseSemantics(c *core.Ctx) {
	p := &c12Prog{c: c}
	switch c.Rng.IntN(7) {
	case 6: // a long cooldown (an hour): the cooldown timer the last change started is still pending when the Buffer is
		// closed; once Close has returned and Done is closed, nothing of the library keeps running for the rest of it
		b := newBuffer(cleanerSpec{}, time.Hour, nil)
		cons, _ := b.NewConsumer()
		for i := 0; i < 1+c.Rng.IntN(3); i++ {
			b.Put(context.Background(), i)
		}
		if c.Rng.IntN(2) == 0 {
			cons.Get(context.Background())
			cons.Commit()
		}
		time.Sleep(time.Duration(c.Rng.IntN(300)) * time.Microsecond)
		cons.Close()
		if p.bounded("Buffer.Close with a cooldown timer pending", func() {
			if err := b.Close(); err != nil {
				p.problem("close-error", "first Buffer.Close returned %v", err)
			}
		}) {
			p.checkBufferClosed(b, nil, nil)
			if leaks := core.LibLeaks(3000); len(leaks) > 0 && len(p.probs) == 0 {
				c.Violate("goroutine-leak:"+leakKey(leaks[0]), "the Buffer (cooldown 1h) is closed, its consumer is closed, every call has returned, and %d library goroutine(s) are still running; first:\n%s", len(leaks), leaks[0])
				c.SetDump(strings.Join(leaks, "\n\n"))
			}
		}
	case 5: // a custom cleaner that always asks for more than there is ("purge": the shift is applied as far as
		// possible), so that it is also evaluated, with a positive answer, on an EMPTY buffer: Put, NewConsumer and Close
		// still complete, Done closes, nothing is left running
		ask := core.Pick(c.Rng, 1, 3, math.MaxInt)
		b := newBuffer(cleanerSpec{}, core.Pick(c.Rng, 0, 200*time.Microsecond), func(bigbuff.Cleaner) bigbuff.Cleaner {
			return func(size int, offsets []int) int { return ask }
		})
		ok := p.bounded("Put/NewConsumer under a purging cleaner", func() {
			for i := 0; i < 1+c.Rng.IntN(4); i++ {
				b.Put(context.Background(), i)
				time.Sleep(time.Duration(c.Rng.IntN(200)) * time.Microsecond) // the cleaner empties the buffer and is asked again
			}
			cons, err := b.NewConsumer()
			if err == nil {
				b.Put(context.Background(), "x")
				cons.Close()
			}
			b.Put(context.Background(), "y")
		})
		if ok {
			ok = p.bounded("Buffer.Close under a purging cleaner", func() {
				if err := b.Close(); err != nil {
					p.problem("close-error", "first Buffer.Close returned %v", err)
				}
			})
		}
		if ok {
			p.checkBufferClosed(b, nil, nil)
		}
	case 4: // Buffer.Close while one consumer still holds an uncommitted read: Close may not complete (and may not
		// report completion: Done, consumers closed) before that read is committed or rolled back
		b := newBuffer(cleanerSpec{}, core.Pick(c.Rng, 0, time.Millisecond), nil)
		b.Put(context.Background(), 1, 2)
		k := 1 + c.Rng.IntN(3)
		conss := make([]bigbuff.Consumer, k)
		for i := range conss {
			conss[i], _ = b.NewConsumer()
		}
		holder := conss[c.Rng.IntN(k)]
		holder.Get(context.Background()) // uncommitted
		closed := core.Go(func() { b.Close() })
		time.Sleep(time.Duration(200+c.Rng.IntN(800)) * time.Microsecond)
		select {
		case <-closed:
			for i, cons := range conss {
				select {
				case <-cons.Done():
				default:
					p.problem("closed-before-consumers", "Buffer.Close returned while consumer %d of the buffer is still open (one consumer holds an uncommitted read)", i)
				}
			}
		default:
		}
		select {
		case <-b.Done():
			select {
			case <-holder.Done():
			default:
				p.problem("closed-before-consumers", "Buffer.Done is closed while a consumer holding an uncommitted read is still open")
			}
		default:
		}
		if c.Rng.IntN(2) == 0 {
			holder.Rollback()
		} else {
			holder.Commit()
		}
		if !core.AwaitDone(closed, 10000) {
			p.problem("blocked", "Buffer.Close did not return after the uncommitted read was resolved:\n%s", core.DumpAll())
			break
		}
		p.checkBufferClosed(b, conss, nil)
	case 3: // concurrent first use of a zero-value Buffer (the lazy initialiser is double-checked under the lock): every
		// Done channel that was handed out must be closed by Close
		for it := 0; it < 200 && len(p.probs) == 0; it++ {
			b := new(bigbuff.Buffer)
			var wg sync.WaitGroup
			barrier := make(chan struct{})
			dones := make([]<-chan struct{}, 8)
			for i := range dones {
				i := i
				wg.Add(1)
				go func() {
					defer wg.Done()
					<-barrier
					if i%2 == 0 {
						dones[i] = b.Done()
					} else {
						b.Size()
						dones[i] = b.Done()
					}
				}()
			}
			close(barrier)
			wg.Wait()
			b.Close()
			for i, d := range dones {
				if !core.AwaitDone(d, 3000) {
					p.problem("done-not-closed", "the Done channel handed to goroutine %d (first use raced by 8 goroutines) was never closed although Close returned", i)
					break
				}
			}
		}
	case 0: // Buffer with data and consumers at various positions
		b := newBuffer(cleanerSpec{}, core.Pick(c.Rng, 0, time.Millisecond), nil)
		n := c.Rng.IntN(6)
		for i := 0; i < n; i++ {
			b.Put(context.Background(), i)
		}
		k := 1 + c.Rng.IntN(3)
		conss := make([]bigbuff.Consumer, k)
		for i := range conss {
			conss[i], _ = b.NewConsumer()
			r := c.Rng.IntN(n + 1)
			// (an earlier consumer's commit may already have let the cleaner evict a prefix: a consumer created after
			// that has fewer values to read)
			if d, ok := b.Diff(conss[i]); ok && r > d {
				r = d
			}
			for j := 0; j < r; j++ {
				conss[i].Get(context.Background())
			}
			if r > 0 {
				if c.Rng.IntN(2) == 0 {
					conss[i].Commit()
				} else {
					conss[i].Rollback()
				}
			}
		}
		time.Sleep(50 * time.Microsecond)
		var before []interface{}
		core.WaitUntil(200, func() bool { // a stable snapshot (the cleaner may still be shifting)
			a := b.Slice()
			time.Sleep(100 * time.Microsecond)
			before = b.Slice()
			return fmt.Sprint(a) == fmt.Sprint(before)
		})
		if !p.bounded("Buffer.Close", func() {
			if err := b.Close(); err != nil {
				p.problem("close-error", "first Buffer.Close returned %v", err)
			}
		}) {
			break
		}
		p.checkBufferClosed(b, conss, before)
	case 1: // Channel: Get / Rollback / Close / Get sequences
		src := make(chan int, 16)
		for i := 1; i <= 8; i++ {
			src <- i
		}
		ctx, cancel := context.WithCancel(context.Background())
		defer cancel()
		ch, _ := bigbuff.NewChannel(ctx, time.Millisecond, src)
		g := c.Rng.IntN(4)
		for i := 0; i < g; i++ {
			ch.Get(nil)
		}
		order := core.Pick(c.Rng, "rollback-close", "close-rollback", "commit-close", "close")
		closeIt := func() {
			if c.Rng.IntN(2) == 0 {
				if err := ch.Close(); err != nil {
					p.problem("close-error", "first Channel.Close returned %v", err)
				}
			} else {
				cancel()
			}
			if !core.AwaitDone(ch.Done(), 5000) {
				p.problem("done-not-closed", "Channel.Done not closed")
			}
		}
		switch order {
		case "rollback-close":
			ch.Rollback()
			closeIt()
		case "close-rollback":
			closeIt()
			ch.Rollback()
		case "commit-close":
			ch.Commit()
			closeIt()
		default:
			closeIt()
		}
		left := len(src)
		for i := 0; i < 3; i++ {
			p.bounded("Channel.Get after close", func() {
				if v, err := ch.Get(context.Background()); err == nil {
					p.problem("get-after-close", "Get #%d on a closed Channel returned value %v and a nil error (sequence %s after %d Gets)", i, v, order, g)
				}
			})
		}
		p.bounded("Channel.Commit after close", func() {
			if err := ch.Commit(); err == nil {
				p.problem("commit-after-close", "Commit succeeded on a closed Channel")
			}
		})
		if len(src) != left {
			p.problem("taken-after-done", "values were taken from the source after Done was closed")
		}
		p.bounded("second Channel.Close", func() {
			if err := ch.Close(); err == nil {
				p.problem("second-close-nil", "second Channel.Close returned nil")
			}
		})
	case 2: // zero-value Buffer shared after its first call completed: Done handed out early must close
		b := new(bigbuff.Buffer)
		b.Size() // first call completes before sharing
		var wg sync.WaitGroup
		dones := make([]<-chan struct{}, 6)
		for i := range dones {
			i := i
			wg.Add(1)
			go func() { defer wg.Done(); dones[i] = b.Done() }()
		}
		wg.Wait()
		b.Close()
		for i, d := range dones {
			if !core.AwaitDone(d, 3000) {
				p.problem("done-not-closed", "the Done channel handed to goroutine %d was never closed although Close returned", i)
			}
		}
	}
	for _, a := range p.probs {
		msg := a.Msg
		if i := strings.Index(msg, "\ngoroutine "); i >= 0 {
			c.SetDump(msg[i:])
			msg = msg[:i]
		}
		c.Violate(a.Key, "%s", msg)
	}
	if leaks := core.LibLeaks(3000); len(leaks) > 0 && !c.Violated() {
		c.Violate("goroutine-leak:"+leakKey(leaks[0]), "library goroutine still alive after close:\n%s", leaks[0])
	}
	c.Op("close", 1)
	c.Nontrivial()
	c.Sig("closesem", c.Seed%97)
}
