// Command bbverif is the parent (plan, spawn children, aggregate, evidence) and the child (run scenarios).
package main

import (
	"bufio"
	"encoding/json"
	"flag"
	"fmt"
	"os"
	"os/exec"
	"path/filepath"
	"regexp"
	"runtime"
	"sort"
	"strconv"
	"strings"
	"sync"
	"sync/atomic"
	"time"

	"verif/core"
	_ "verif/props"
)

func main() {
	if len(os.Args) < 2 {
		core.Fatalf("usage: bbverif parent|child|replay ...")
	}
	switch os.Args[1] {
	case "parent":
		parent(os.Args[2:])
	case "child":
		child(os.Args[2:])
	case "replay":
		replay(os.Args[2:])
	case "list":
		for _, id := range core.AllIDs() {
			fmt.Println(id)
		}
	case "describe": // markdown table of the registered families (used for DESIGN.md §10)
		fmt.Println("| property | family | scenarios quick / thorough | one child per scenario |")
		fmt.Println("|---|---|---|---|")
		for _, id := range core.AllIDs() {
			p := core.Lookup(id)
			for _, f := range p.Families {
				fmt.Printf("| %s | %s | %d / %d | %v |\n", id, f.Name, f.N("quick"), f.N("thorough"), f.Solo)
			}
		}
	default:
		core.Fatalf("unknown mode %q", os.Args[1])
	}
}

// ---------------------------------------------------------------------------
// child

func child(args []string) {
	fs := flag.NewFlagSet("child", flag.ExitOnError)
	prop := fs.String("prop", "", "")
	tier := fs.String("tier", "quick", "")
	seed := fs.Uint64("seed", 1, "")
	family := fs.String("family", "", "")
	from := fs.Int("from", 0, "")
	to := fs.Int("to", 0, "")
	out := fs.String("out", "", "")
	race := fs.Bool("race", false, "")
	fs.Parse(args)
	p := core.Lookup(*prop)
	if p == nil {
		core.Fatalf("unknown property %s", *prop)
	}
	var fam *core.Family
	for i := range p.Families {
		if p.Families[i].Name == *family {
			fam = &p.Families[i]
		}
	}
	if fam == nil {
		core.Fatalf("unknown family %s", *family)
	}
	f, err := os.OpenFile(*out, os.O_CREATE|os.O_WRONLY|os.O_APPEND, 0o644)
	if err != nil {
		core.Fatalf("open out: %v", err)
	}
	defer f.Close()
	violated := 0
	for i := *from; i < *to; i++ {
		if violated >= 3 {
			// three violating scenarios in one batch: the rest of the batch adds nothing (and with a library that
			// deadlocks every further scenario would sit out its bounds)
			f.Close()
			fmt.Printf("ENOUGH %s %s %d\n", *prop, *family, i)
			os.Exit(76)
		}
		fmt.Printf("START %s %s %d\n", *prop, *family, i)
		c := core.NewCtx(*prop, *tier, *family, i, *seed, *race)
		done := core.Go(func() { fam.Run(c) })
		abandoned := false
		budget := 60000 // heartbeats a scenario may take as a whole (the longest ones take a few thousand)
		if *tier == "thorough" {
			budget = 200000
		}
		waited := 0
		for ; !core.AwaitDone(done, 3000); waited += 3000 {
			// a scenario that has already recorded a violation and then cannot wind down (the library is deadlocked
			// underneath it) is abandoned: its result is kept and the process exits so that the parent goes on
			if c.Violated() {
				abandoned = true
				break
			}
			// a scenario that recorded nothing and does not come back either (typically its own clean-up, a deferred
			// Close, is stuck inside the library) is inconclusive, not violated: it is given up long before the
			// batch watchdog would fire, so that the rest of the batch is still run
			if waited >= budget {
				dump := core.DumpAll()
				where := "unknown"
				if g := core.StackWith(dump, "main.child.func1", core.LibPrefix); g != "" {
					for _, line := range strings.Split(g, "\n") {
						if strings.Contains(line, core.LibPrefix) {
							where = strings.TrimSpace(line)
							break
						}
					}
				}
				c.Inconclusive("the scenario did not finish within %d heartbeats and recorded no violation; its goroutine is in %s", budget, where)
				c.SetDump(dump)
				abandoned = true
				break
			}
		}
		if abandoned {
			c.Count("abandoned_after_violation", 1)
		}
		if waited >= 9000 {
			c.Count("scenarios_over_9000_heartbeats", 1) // how close anything gets to the budget
		}
		c.Finish()
		b, err := json.Marshal(c.R)
		if err != nil {
			core.Fatalf("marshal result: %v", err)
		}
		f.Write(append(b, '\n'))
		fmt.Printf("END %s %s %d %s\n", *prop, *family, i, c.R.Verdict)
		if c.R.Verdict == core.Violated {
			violated++
		}
		if abandoned {
			f.Close()
			fmt.Printf("ABANDONED %s %s %d\n", *prop, *family, i)
			os.Exit(75)
		}
	}
}

// ---------------------------------------------------------------------------
// parent

type batch struct {
	fam      string
	from, to int
	gmp      int
}

type known struct{ prop, key, text string }

func loadKnown(verif string) []known {
	var ks []known
	f, err := os.Open(filepath.Join(verif, "KNOWN_FINDINGS.txt"))
	if err != nil {
		return nil
	}
	defer f.Close()
	sc := bufio.NewScanner(f)
	re := regexp.MustCompile(`^finding:\s+property=(\S+)\s+key=(\S+)\s+(.*)$`)
	for sc.Scan() {
		if m := re.FindStringSubmatch(strings.TrimSpace(sc.Text())); m != nil {
			ks = append(ks, known{m[1], m[2], m[3]})
		}
	}
	return ks
}

func parent(args []string) {
	fs := flag.NewFlagSet("parent", flag.ExitOnError)
	prop := fs.String("prop", "", "")
	tier := fs.String("tier", "quick", "")
	seed := fs.Uint64("seed", 1, "")
	verif := fs.String("verif", "/verif", "")
	work := fs.String("work", "", "")
	par := fs.Int("par", 6, "")
	only := fs.String("family", "", "run only this family (dev)")
	noEvidence := fs.Bool("no-evidence", false, "")
	fs.Parse(args)
	start := time.Now()
	p := core.Lookup(*prop)
	if p == nil {
		core.Fatalf("unknown property %s", *prop)
	}
	self, _ := os.Executable()
	if *work == "" {
		core.Fatalf("-work required")
	}
	os.MkdirAll(*work, 0o755)

	gmps := []int{16, 4, 2, 8, 1, 16, 3}
	var batches []batch
	bi := 0
	for _, fam := range p.Families {
		if *only != "" && fam.Name != *only {
			continue
		}
		n := fam.N(*tier)
		bs := fam.Batch
		if bs <= 0 {
			bs = 25
		}
		if fam.Solo {
			bs = 1
		}
		for a := 0; a < n; a += bs {
			b := a + bs
			if b > n {
				b = n
			}
			batches = append(batches, batch{fam.Name, a, b, gmps[(bi+int(*seed))%len(gmps)]})
			bi++
		}
	}

	var (
		mu       sync.Mutex
		results  []*core.Result
		harnErrs []string
	)
	sem := make(chan struct{}, *par)
	var wg sync.WaitGroup
	skipped := 0
	for i, b := range batches {
		// enough is enough: once half a dozen scenarios have violated, the remaining batches add nothing (and a library
		// that deadlocks makes every further scenario wait for its bounds)
		if violationsSoFar.Load() >= 6 {
			skipped++
			continue
		}
		wg.Add(1)
		sem <- struct{}{}
		go func(i int, b batch) {
			defer wg.Done()
			defer func() { <-sem }()
			rs, errs := runBatch(self, p, *tier, *seed, b, *work, i)
			mu.Lock()
			results = append(results, rs...)
			harnErrs = append(harnErrs, errs...)
			mu.Unlock()
		}(i, b)
	}
	wg.Wait()
	if skipped > 0 {
		fmt.Fprintf(os.Stderr, "  (%d of %d batches skipped after %d violating scenarios)\n", skipped, len(batches), violationsSoFar.Load())
	}

	sort.Slice(results, func(i, j int) bool {
		if results[i].Family != results[j].Family {
			return results[i].Family < results[j].Family
		}
		return results[i].Index < results[j].Index
	})

	// aggregate
	ks := loadKnown(*verif)
	type agg struct {
		Scenarios, Nontrivial, Violated, Inconclusive int
	}
	fams := map[string]*agg{}
	sigs := map[string]bool{}
	ops := map[string]int{}
	hooks := map[string]int{}
	counters := map[string]int{}
	exh := map[string]int{}
	gm := map[int]bool{}
	incReasons := map[string]int{}
	var events, overlaps, winHit, winMiss, pok, pbad, punk, inconclusive int
	var samples []any
	var violations []*core.Result
	knownMatched := map[string]int{}
	for _, r := range results {
		a := fams[r.Family]
		if a == nil {
			a = &agg{}
			fams[r.Family] = a
		}
		a.Scenarios++
		events += r.Events
		overlaps += r.Overlaps
		winHit += r.WinHit
		winMiss += r.WinMissed
		pok += r.PorcOK
		pbad += r.PorcBad
		punk += r.PorcUnk
		gm[r.GOMAXPROCS] = true
		for k, v := range r.Ops {
			ops[k] += v
		}
		for k, v := range r.HookHits {
			hooks[k] += v
		}
		for k, v := range r.Counters {
			counters[k] += v
		}
		for k, v := range r.Exhaustive {
			exh[k] += v
		}
		if r.Nontrivial {
			a.Nontrivial++
			sigs[r.Family+"/"+r.Signature] = true
		}
		switch r.Verdict {
		case core.Violated:
			a.Violated++
			violations = append(violations, r)
		case core.Inconclusive:
			a.Inconclusive++
			inconclusive++
			if inconclusive <= 3 {
				fmt.Fprintf(os.Stderr, "  inconclusive [%s/%d]: %s\n", r.Family, r.Index, r.Reason)
			}
			reason := r.Reason
			if len(reason) > 80 {
				reason = reason[:80]
			}
			incReasons[r.Family+": "+reason]++
		}
		if r.History != nil && len(samples) < 3 && r.Verdict == core.Held {
			samples = append(samples, map[string]any{"family": r.Family, "index": r.Index, "seed": r.Seed, "params": r.Params, "history": r.History})
		}
	}
	if len(samples) == 0 {
		for _, r := range results {
			if len(samples) < 2 {
				samples = append(samples, map[string]any{"family": r.Family, "index": r.Index, "seed": r.Seed, "params": r.Params, "ops": r.Ops, "counters": r.Counters})
			}
		}
	}

	// violations -> replays, known findings
	exit := 0
	newViol := 0
	seenKeys := map[string]bool{}
	var lines []string
	for _, v0 := range violations {
		// a scenario may carry several violations: the headline and those in More
		type kr struct{ key, reason string }
		krs := []kr{{v0.Key, v0.Reason}}
		for _, m := range v0.More {
			if i := strings.IndexByte(m, '\t'); i >= 0 {
				krs = append(krs, kr{m[:i], m[i+1:]})
			}
		}
		reported := false
		for _, x := range krs {
			matched := false
			for _, k := range ks {
				if k.prop == v0.Prop && k.key == x.key {
					matched = true
					if knownMatched[k.key] == 0 {
						lines = append(lines, fmt.Sprintf("KNOWN-FINDING: property=%s key=%s %s", k.prop, k.key, k.text))
					}
					knownMatched[k.key]++
				}
			}
			if matched {
				continue
			}
			newViol++
			exit = 1
			fmt.Fprintf(os.Stderr, "  violation [%s/%d] key=%s: %s\n", v0.Family, v0.Index, x.key, firstLine(x.reason))
			if reported || (seenKeys[x.key] && newViol > 5) {
				continue // one replay file per scenario; only the first few of the same kind
			}
			reported = true
			seenKeys[x.key] = true
			v := *v0
			v.Key, v.Reason = x.key, x.reason
			dir := filepath.Join(*verif, "replays", v.Prop)
			os.MkdirAll(dir, 0o755)
			path := filepath.Join(dir, fmt.Sprintf("%s-%s-%d-seed%d.json", *tier, v.Family, v.Index, *seed))
			rec := map[string]any{"property": v.Prop, "tier": *tier, "family": v.Family, "index": v.Index, "base_seed": *seed, "race": p.Race, "result": &v}
			b, _ := json.MarshalIndent(rec, "", " ")
			os.WriteFile(path, b, 0o644)
			lines = append(lines, fmt.Sprintf("VIOLATION property=%s replay=%s", v.Prop, path))
		}
	}

	evaluations := len(results)
	distinct := len(sigs)
	wall := time.Since(start).Seconds()

	if !*noEvidence {
		var gml []int
		for g := range gm {
			gml = append(gml, g)
		}
		sort.Ints(gml)
		cov := map[string]any{
			"evaluations":            evaluations,
			"distinct_nontrivial":    distinct,
			"rule":                   p.Rule,
			"samples":                samples,
			"events_observed":        events,
			"ops_by_kind":            ops,
			"hook_hits":              hooks,
			"windows":                map[string]int{"hit": winHit, "missed": winMiss},
			"porcupine":              map[string]int{"ok": pok, "illegal": pbad, "unknown": punk},
			"overlap_pairs":          overlaps,
			"inconclusive":           inconclusive,
			"inconclusive_reasons":   incReasons,
			"gomaxprocs_used":        gml,
			"families":               fams,
			"counters":               counters,
			"known_findings_matched": knownMatched,
		}
		if len(exh) > 0 {
			ef := map[string]any{}
			for k, v := range exh {
				ef[k] = map[string]any{"cases": v, "exhaustive": true}
			}
			cov["exhaustive_families"] = ef
		}
		ev := map[string]any{
			"property_id": p.ID,
			"tier":        *tier,
			"seed":        int64(*seed),
			"level":       "exploration",
			"coverage":    cov,
			"assumptions": p.Assumptions,
			"wall_s":      wall,
			"violations":  newViol,
		}
		b, _ := json.MarshalIndent(ev, "", " ")
		os.MkdirAll(filepath.Join(*verif, "evidence"), 0o755)
		if err := os.WriteFile(filepath.Join(*verif, "evidence", p.ID+".json"), b, 0o644); err != nil {
			harnErrs = append(harnErrs, "write evidence: "+err.Error())
		}
	}

	for _, l := range lines {
		fmt.Println(l)
	}
	var famNames []string
	for k := range fams {
		famNames = append(famNames, k)
	}
	sort.Strings(famNames)
	fmt.Printf("%s %s seed=%d: scenarios=%d events=%d distinct_nontrivial=%d inconclusive=%d violations=%d known=%d wall=%.1fs\n",
		p.ID, *tier, *seed, evaluations, events, distinct, inconclusive, newViol, len(knownMatched), wall)
	for _, k := range famNames {
		a := fams[k]
		fmt.Printf("  family %-28s scenarios=%-5d nontrivial=%-5d inconclusive=%-4d violated=%d\n", k, a.Scenarios, a.Nontrivial, a.Inconclusive, a.Violated)
	}
	if len(harnErrs) > 0 {
		for _, e := range harnErrs {
			fmt.Fprintln(os.Stderr, "HARNESS-ERROR:", e)
		}
		if exit == 0 {
			exit = 2
		}
	}
	min := p.MinNontrivial
	if min == 0 {
		min = 2
	}
	if exit == 0 && *only == "" && (evaluations == 0 || events == 0 || distinct < min) {
		fmt.Fprintf(os.Stderr, "HARNESS-ERROR: observed too little (evaluations=%d events=%d distinct_nontrivial=%d)\n", evaluations, events, distinct)
		exit = 2
	}
	os.Exit(exit)
}

func firstLine(s string) string {
	if i := strings.IndexByte(s, '\n'); i >= 0 {
		return s[:i]
	}
	return s
}

var violationsSoFar atomic.Int64

var startRe = regexp.MustCompile(`(?m)^START (\S+) (\S+) (\d+)$`)

// runBatch runs one child (re-spawning after a crash for the remaining scenarios).
func runBatch(self string, p *core.Property, tier string, seed uint64, b batch, work string, bi int) (results []*core.Result, errs []string) {
	from := b.from
	attempt := 0
	timeouts := 0
	for from < b.to {
		attempt++
		tag := fmt.Sprintf("b%03d-%s-%d-%d.a%d", bi, b.fam, from, b.to, attempt)
		out := filepath.Join(work, tag+".jsonl")
		logp := filepath.Join(work, tag+".log")
		os.Remove(out)
		lf, err := os.Create(logp)
		if err != nil {
			return results, append(errs, err.Error())
		}
		limit := 240
		if tier == "thorough" {
			limit = 900
		}
		args := []string{"-s", "QUIT", "-k", "20", strconv.Itoa(limit), self, "child", "-prop", p.ID, "-tier", tier, "-seed", strconv.FormatUint(seed, 10),
			"-family", b.fam, "-from", strconv.Itoa(from), "-to", strconv.Itoa(b.to), "-out", out}
		if p.Race {
			args = append(args, "-race")
		}
		cmd := exec.Command("timeout", args...)
		cmd.Stdout = lf
		cmd.Stderr = lf
		env := append(os.Environ(), fmt.Sprintf("GOMAXPROCS=%d", b.gmp), "GOTRACEBACK=all")
		if p.Race {
			env = append(env, "GORACE=halt_on_error=0 history_size=5 log_path="+filepath.Join(work, tag+".race"))
		}
		cmd.Env = env
		runErr := cmd.Run()
		lf.Close()
		rs := readResults(out)
		results = append(results, rs...)
		for _, r := range rs {
			if r.Verdict == core.Violated {
				violationsSoFar.Add(1)
			}
		}
		done := from + len(rs)
		code := -1
		if ee, ok := runErr.(*exec.ExitError); ok {
			code = ee.ExitCode()
		}
		if p.Race {
			rr, re := raceReports(p, work, tag, b, rs)
			results = append(results, rr...)
			errs = append(errs, re...)
		}
		// (a race-detector build exits with status 66 when it reported races: not a crash)
		if (runErr == nil || (p.Race && code == 66)) && done >= b.to {
			os.Remove(logp)
			os.Remove(out)
			return
		}
		if code == 76 { // the child stopped after three violating scenarios: the rest of the batch is not run
			return
		}
		if code == 75 { // the child abandoned a scenario that could not wind down after a violation: go on after it
			from = done
			if violationsSoFar.Load() >= 6 {
				return
			}
			continue
		}
		// crash or timeout
		logb, _ := os.ReadFile(logp)
		logs := string(logb)
		idx := done
		if ms := startRe.FindAllStringSubmatch(logs, -1); len(ms) > 0 {
			idx, _ = strconv.Atoi(ms[len(ms)-1][3])
		}
		if code == 124 || code == 137 || strings.Contains(logs, "SIGQUIT: quit") {
			timeouts++
			for _, r := range rs {
				if r.Verdict == core.Violated {
					// violations were recorded before the watchdog fired: the batch is not retried
					return
				}
			}
			if timeouts >= 2 {
				errs = append(errs, fmt.Sprintf("batch %s scenario %d timed out twice (log %s)", tag, idx, logp))
				return
			}
			from = idx // retry the same scenario once
			continue
		}
		if code == 2 && strings.Contains(logs, "HARNESS-ERROR") {
			errs = append(errs, fmt.Sprintf("batch %s: %s", tag, lastLines(logs, 3)))
			return
		}
		// crashed: classify
		lib, head, fn := classifyCrash(logs)
		if lib {
			r := &core.Result{Prop: p.ID, Family: b.fam, Index: idx, Seed: seed, GOMAXPROCS: b.gmp, Verdict: core.Violated,
				Key: "crash:" + fn, Reason: "child process died inside the library: " + head, Dump: tail(logs, 30000)}
			results = append(results, r)
			violationsSoFar.Add(1)
			from = idx + 1
			if violationsSoFar.Load() >= 6 {
				return
			}
			continue
		}
		errs = append(errs, fmt.Sprintf("batch %s scenario %d crashed outside the library (exit %d): %s (log %s)", tag, idx, code, head, logp))
		return
	}
	return
}

func readResults(path string) []*core.Result {
	f, err := os.Open(path)
	if err != nil {
		return nil
	}
	defer f.Close()
	var rs []*core.Result
	sc := bufio.NewScanner(f)
	sc.Buffer(make([]byte, 1<<20), 1<<28)
	for sc.Scan() {
		var r core.Result
		if json.Unmarshal(sc.Bytes(), &r) == nil && r.Prop != "" {
			rs = append(rs, &r)
		}
	}
	return rs
}

func tail(s string, n int) string {
	if len(s) > n {
		return "...[truncated]\n" + s[len(s)-n:]
	}
	return s
}

func lastLines(s string, n int) string {
	ls := strings.Split(strings.TrimSpace(s), "\n")
	if len(ls) > n {
		ls = ls[len(ls)-n:]
	}
	return strings.Join(ls, " | ")
}

var libFnRe = regexp.MustCompile(`github\.com/joeycumines/go-bigbuff\.((?:\(\*?\w+(?:\[[^\]]*\])?\)\.)?[\w.\[\]]+)`)

// classifyCrash decides whether a crashed child died in (or because of) the library.
func classifyCrash(log string) (lib bool, head, fn string) {
	i := strings.Index(log, "\npanic: ")
	j := strings.Index(log, "\nfatal error: ")
	if strings.HasPrefix(log, "panic: ") {
		i = 0
	}
	if strings.HasPrefix(log, "fatal error: ") {
		j = 0
	}
	k := i
	if k < 0 || (j >= 0 && j < k) {
		k = j
	}
	if k < 0 {
		return false, "no panic/fatal error found: " + lastLines(log, 2), ""
	}
	rest := strings.TrimLeft(log[k:], "\n")
	head = firstLine(rest)
	// the panicking goroutine is the first goroutine block after the message; for fatal errors (deadlock,
	// concurrent map access) the relevant goroutine is also printed first.
	blocks := strings.Split(rest, "\n\n")
	scan := blocks[0]
	if len(blocks) > 1 && !strings.Contains(blocks[0], "goroutine ") {
		scan = blocks[0] + "\n" + blocks[1]
	}
	if strings.Contains(head, "all goroutines are asleep") {
		scan = rest
	}
	if m := libFnRe.FindStringSubmatch(scan); m != nil {
		return true, head, m[1]
	}
	return false, head, ""
}

// ---------------------------------------------------------------------------
// race reports (C11)

var raceSplit = regexp.MustCompile(`(?m)^==================$`)

func raceReports(p *core.Property, work, tag string, b batch, rs []*core.Result) ([]*core.Result, []string) {
	files, _ := filepath.Glob(filepath.Join(work, tag+".race*"))
	var out []*core.Result
	var herrs []string
	seen := map[string]bool{}
	for _, f := range files {
		data, _ := os.ReadFile(f)
		for _, blk := range raceSplit.Split(string(data), -1) {
			if !strings.Contains(blk, "WARNING: DATA RACE") {
				continue
			}
			key, lib := raceKey(blk)
			if seen[key] {
				continue
			}
			seen[key] = true
			r := &core.Result{Prop: p.ID, Family: b.fam, Index: b.from, GOMAXPROCS: b.gmp, Verdict: core.Violated,
				Key: "race:" + key, Reason: "data race reported by the Go race detector: " + key, Dump: tail(blk, 20000)}
			if !lib {
				// a race with no library function or payload helper on either side is a bug of the harness itself
				rp := filepath.Join(work, "harness-race-"+tag+".txt")
				os.WriteFile(rp, []byte(blk), 0o644)
				herrs = append(herrs, "race between harness-only frames (harness bug, not a violation): "+key+" (report "+rp+")")
				continue
			}
			out = append(out, r)
		}
		os.Remove(f)
	}
	return out, herrs
}

var frameRe = regexp.MustCompile(`(?m)^  (\S+)\(.*\n\s+(\S+?):\d+`)

// repoDir is where the library sources live (frames are attributed by source file: inlined closures carry the
// caller's function name).
func repoDir() string {
	if d := os.Getenv("VERIF_REPO_DIR"); d != "" {
		return strings.TrimRight(d, "/") + "/"
	}
	return "/repo/"
}

// raceKey returns the unordered pair of top non-runtime functions of the two accesses and whether either access is
// in a library source file or in the harness's payload helpers.
func raceKey(blk string) (string, bool) {
	// sections: "Write at ... by goroutine N:" / "Previous read at ... by goroutine M:"
	secRe := regexp.MustCompile(`(?m)^(?:Previous )?(?:[Rr]ead|[Ww]rite|atomic [a-z]+) at .*$`)
	locs := secRe.FindAllStringIndex(blk, -1)
	var tops []string
	lib := false
	rd := repoDir()
	for i, l := range locs {
		end := len(blk)
		if i+1 < len(locs) {
			end = locs[i+1][0]
		}
		sec := blk[l[1]:end]
		if j := strings.Index(sec, "\n\n"); j >= 0 {
			sec = sec[:j]
		}
		top := "?"
		for _, m := range frameRe.FindAllStringSubmatch(sec, -1) {
			fn, file := m[1], m[2]
			if strings.HasPrefix(fn, "runtime.") || strings.HasPrefix(fn, "sync.") || strings.HasPrefix(fn, "sync/atomic.") || strings.HasPrefix(fn, "reflect.") || strings.HasPrefix(fn, "internal/") {
				continue
			}
			top = fn
			if (strings.HasPrefix(file, rd) && !strings.HasSuffix(file, "_test.go")) || strings.Contains(fn, "props.Payload") {
				lib = true
				top = fn + "@" + strings.TrimPrefix(file, rd)
			}
			break
		}
		tops = append(tops, strings.TrimPrefix(top, "github.com/joeycumines/go-bigbuff."))
	}
	sort.Strings(tops)
	return strings.Join(tops, " <-> "), lib
}

// ---------------------------------------------------------------------------
// replay: re-execute a recorded scenario several times (schedules are not deterministic: best effort).

func replay(args []string) {
	fs := flag.NewFlagSet("replay", flag.ExitOnError)
	path := fs.String("path", "", "")
	times := fs.Int("times", 5, "")
	work := fs.String("work", "", "")
	fs.Parse(args)
	b, err := os.ReadFile(*path)
	if err != nil {
		core.Fatalf("read replay: %v", err)
	}
	var rec struct {
		Property string       `json:"property"`
		Tier     string       `json:"tier"`
		Family   string       `json:"family"`
		Index    int          `json:"index"`
		BaseSeed uint64       `json:"base_seed"`
		Result   *core.Result `json:"result"`
	}
	if err := json.Unmarshal(b, &rec); err != nil {
		core.Fatalf("parse replay: %v", err)
	}
	p := core.Lookup(rec.Property)
	if p == nil {
		core.Fatalf("unknown property %s", rec.Property)
	}
	fmt.Printf("recorded: property=%s family=%s index=%d key=%s\n  reason: %s\n", rec.Property, rec.Family, rec.Index, rec.Result.Key, firstLine(rec.Result.Reason))
	self, _ := os.Executable()
	os.MkdirAll(*work, 0o755)
	viol := 0
	for i := 0; i < *times; i++ {
		rs, errs := runBatch(self, p, rec.Tier, rec.BaseSeed, batch{rec.Family, rec.Index, rec.Index + 1, []int{16, 2, 4, 1, 8}[i%5]}, *work, 900+i)
		for _, e := range errs {
			fmt.Println("  harness error:", e)
		}
		for _, r := range rs {
			fmt.Printf("  re-execution %d: %s %s %s\n", i+1, r.Verdict, r.Key, firstLine(r.Reason))
			if r.Verdict == core.Violated {
				viol++
			}
		}
	}
	fmt.Printf("re-executions violating: %d/%d\n", viol, *times)
	if viol > 0 {
		fmt.Printf("VIOLATION property=%s replay=%s\n", rec.Property, *path)
		os.Exit(1)
	}
	_ = runtime.NumCPU
}
