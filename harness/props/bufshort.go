package props

import (
	"context"
	"fmt"
	"sort"
	"strings"
	"sync"
	"time"

	"github.com/anishathalye/porcupine"
	bigbuff "github.com/joeycumines/go-bigbuff"

	"verif/core"
)

// Short random concurrent histories over one Buffer, recorded at the API boundary for porcupine.

type bufShortOpts struct {
	clients    int
	opsPer     int
	cs         cleanerSpec
	cooldown   time.Duration
	weights    [9]int // by bopKind
	shareCons  bool   // clients operate on any consumer (else each client mostly on its own)
	preConsume int    // consumers created before clients start
}

type histRec struct {
	mu  sync.Mutex
	ops []porcupine.Operation
}

func (h *histRec) add(op porcupine.Operation) {
	h.mu.Lock()
	h.ops = append(h.ops, op)
	h.mu.Unlock()
}

func errClass(err error) (string, bool) {
	if err == nil {
		return "", false
	}
	s := err.Error()
	return s, strings.Contains(s, "bigbuff.Buffer.get offset") && strings.Contains(s, "past")
}

func toInts(vs []interface{}) ([]int, bool) {
	out := make([]int, len(vs))
	for i, v := range vs {
		n, ok := v.(int)
		if !ok {
			return nil, false
		}
		out[i] = n
	}
	return out, true
}

func newBuffer(cs cleanerSpec, cooldown time.Duration, wrap func(bigbuff.Cleaner) bigbuff.Cleaner) *bigbuff.Buffer {
	b := new(bigbuff.Buffer)
	var cl bigbuff.Cleaner = bigbuff.DefaultCleaner
	if cs.Fixed {
		cl = bigbuff.FixedBufferCleaner(cs.Max, cs.Target, nil)
	}
	if wrap != nil {
		cl = wrap(cl)
	}
	if err := b.SetCleanerConfig(bigbuff.CleanerConfig{Cleaner: cl, Cooldown: cooldown}); err != nil {
		panic(err)
	}
	return b
}

type sharedCons struct {
	mu    sync.Mutex
	list  []bigbuff.Consumer
	close []int64 // stamp at which Close was invoked (0 = not yet)
}

func (s *sharedCons) add(c bigbuff.Consumer) int {
	s.mu.Lock()
	defer s.mu.Unlock()
	s.list = append(s.list, c)
	s.close = append(s.close, 0)
	return len(s.list) - 1
}

func (s *sharedCons) n() int { s.mu.Lock(); defer s.mu.Unlock(); return len(s.list) }
func (s *sharedCons) get(i int) bigbuff.Consumer {
	s.mu.Lock()
	defer s.mu.Unlock()
	return s.list[i]
}

// runBufShort drives the workload and returns the recorded history.
func runBufShort(c *core.Ctx, o bufShortOpts) (ops []porcupine.Operation, hung string) {
	b := newBuffer(o.cs, o.cooldown, nil)
	h := &histRec{}
	sc := &sharedCons{}
	nextVal := 0
	var valMu sync.Mutex
	newVals := func(n int) []int {
		valMu.Lock()
		defer valMu.Unlock()
		vs := make([]int, n)
		for i := range vs {
			nextVal++
			vs[i] = nextVal
		}
		return vs
	}
	var asyncWG sync.WaitGroup
	asyncClient := 1000

	doNewConsumer := func(client int) {
		// the id is only known after the call; reserve it under the registry lock so ids are unique
		call := core.Now()
		cons, err := b.NewConsumer()
		var cid int
		if err == nil {
			cid = sc.add(cons)
		}
		ret := core.Now()
		es, _ := errClass(err)
		h.add(porcupine.Operation{ClientId: client, Input: bIn{Kind: bNewConsumer, Cons: cid}, Call: call, Output: bOut{Err: es}, Return: ret})
	}
	doPut := func(client int, n int) {
		vs := newVals(n)
		args := make([]interface{}, n)
		for i, v := range vs {
			args[i] = v
		}
		call := core.Now()
		err := b.Put(context.Background(), args...)
		poisonArgs(args)
		ret := core.Now()
		es, _ := errClass(err)
		h.add(porcupine.Operation{ClientId: client, Input: bIn{Kind: bPut, Vals: vs}, Call: call, Output: bOut{Err: es}, Return: ret})
	}
	doGet := func(client, cid int, wait time.Duration) {
		cons := sc.get(cid)
		ctx, cancel := context.WithCancel(context.Background())
		var cancelStamp int64
		var cmu sync.Mutex
		t := time.AfterFunc(wait, func() {
			cmu.Lock()
			cancelStamp = core.Now()
			cmu.Unlock()
			cancel()
		})
		call := core.Now()
		v, err := cons.Get(ctx)
		ret := core.Now()
		t.Stop()
		cancel()
		cmu.Lock()
		cs := cancelStamp
		cmu.Unlock()
		out := bOut{}
		out.Err, out.ErrPast = errClass(err)
		if err == nil {
			n, ok := v.(int)
			if !ok {
				out.Val = -1
			} else {
				out.Val = n
			}
		}
		sc.mu.Lock()
		closeStamp := sc.close[cid]
		sc.mu.Unlock()
		h.add(porcupine.Operation{ClientId: client, Input: bIn{Kind: bGet, Cons: cid, CancelledBeforeReturn: cs != 0 && cs < ret,
			CloseCalledBeforeReturn: closeStamp != 0 && closeStamp < ret}, Call: call, Output: out, Return: ret})
	}
	doSimple := func(client, cid int, kind bopKind) {
		var cons bigbuff.Consumer
		if kind == bCommit || kind == bRollback || kind == bDiff {
			cons = sc.get(cid)
		}
		out := bOut{}
		call := core.Now()
		var err error
		switch kind {
		case bCommit:
			err = cons.Commit()
		case bRollback:
			err = cons.Rollback()
		case bDiff:
			out.N, out.OK = b.Diff(cons)
		case bSize:
			out.N = b.Size()
		case bSlice:
			vs, ok := toInts(b.Slice())
			if !ok {
				vs = []int{-1}
			}
			out.Vals = vs
		}
		ret := core.Now()
		out.Err, _ = errClass(err)
		h.add(porcupine.Operation{ClientId: client, Input: bIn{Kind: kind, Cons: cid}, Call: call, Output: out, Return: ret})
	}
	doClose := func(cid int) {
		cons := sc.get(cid)
		sc.mu.Lock()
		already := sc.close[cid] != 0
		if !already {
			sc.close[cid] = core.Now()
		}
		asyncClient++
		client := asyncClient
		sc.mu.Unlock()
		if already {
			return // the harness never issues two closes of one consumer (second-close semantics: C12)
		}
		asyncWG.Add(1)
		go func() {
			defer asyncWG.Done()
			call := core.Now()
			err := cons.Close()
			ret := core.Now()
			es, _ := errClass(err)
			h.add(porcupine.Operation{ClientId: client, Input: bIn{Kind: bCloseCons, Cons: cid}, Call: call, Output: bOut{Err: es}, Return: ret})
		}()
	}

	for i := 0; i < o.preConsume; i++ {
		doNewConsumer(0)
	}

	total := 0
	for _, w := range o.weights {
		total += w
	}
	var wg sync.WaitGroup
	seeds := make([]uint64, o.clients)
	for i := range seeds {
		seeds[i] = c.Rng.Uint64()
	}
	for cl := 0; cl < o.clients; cl++ {
		wg.Add(1)
		go func(cl int) {
			defer wg.Done()
			r := newRand(seeds[cl])
			own := -1
			for i := 0; i < o.opsPer; i++ {
				x := r.IntN(total)
				kind := bopKind(0)
				for k, w := range o.weights {
					if x < w {
						kind = bopKind(k)
						break
					}
					x -= w
				}
				n := sc.n()
				needCons := kind == bGet || kind == bCommit || kind == bRollback || kind == bCloseCons || kind == bDiff
				if needCons && n == 0 {
					kind = bNewConsumer
				}
				cid := 0
				if needCons && n > 0 {
					if o.shareCons || own < 0 || r.IntN(4) == 0 {
						cid = r.IntN(n)
					} else {
						cid = own
					}
				}
				switch kind {
				case bPut:
					doPut(cl+1, r.IntN(4))
				case bNewConsumer:
					doNewConsumer(cl + 1)
					own = sc.n() - 1
				case bGet:
					doGet(cl+1, cid, core.Pick(r, 20*time.Microsecond, 200*time.Microsecond, time.Millisecond))
				case bCloseCons:
					doClose(cid)
				default:
					doSimple(cl+1, cid, kind)
				}
				if r.IntN(3) == 0 {
					time.Sleep(time.Duration(r.IntN(100)) * time.Microsecond)
				}
			}
		}(cl)
	}
	clientsDone := core.Go(wg.Wait)
	if !core.AwaitDone(clientsDone, 20000) {
		return nil, "client operations did not finish:\n" + core.DumpAll()
	}
	// unblock pending closes: roll back every consumer (recorded), until all closes have returned
	closesDone := core.Go(asyncWG.Wait)
	for round := 0; ; round++ {
		for cid := 0; cid < sc.n(); cid++ {
			doSimple(900, cid, bRollback)
		}
		if core.AwaitDone(closesDone, 200) {
			break
		}
		if round > 100 {
			return nil, "consumer Close did not return although nothing is left uncommitted:\n" + core.DumpAll()
		}
	}
	// final observations at quiescence
	doSimple(900, 0, bSlice)
	doSimple(900, 0, bSize)
	for cid := 0; cid < sc.n(); cid++ {
		doSimple(900, cid, bDiff)
	}
	_ = b.Close()
	h.mu.Lock()
	defer h.mu.Unlock()
	return h.ops, ""
}

func defaultShortWeights() [9]int {
	//            Put New Get Com Rol Clo Sli Siz Dif
	return [9]int{25, 6, 32, 10, 8, 4, 5, 4, 6}
}

// checkBufShort runs porcupine over the history and records the verdict in c.
func checkBufShort(c *core.Ctx, ops []porcupine.Operation, cs cleanerSpec, keyPrefix string) {
	kinds := map[string]int{}
	for _, op := range ops {
		kinds[op.Input.(bIn).Kind.String()]++
	}
	for k, n := range kinds {
		c.Op(k, n)
	}
	c.R.Overlaps += countOverlaps(ops)
	model := bufferModel(cs)
	res := checkLin(model, ops, 20*time.Second)
	switch res {
	case porcupine.Ok:
		c.R.PorcOK++
	case porcupine.Unknown:
		c.R.PorcUnk++
		c.Inconclusive("porcupine timed out on %d operations", len(ops))
	case porcupine.Illegal:
		c.R.PorcBad++
		c.Violate(keyPrefix+"not-linearizable", "Buffer history (%d ops, cleaner %s) is not linearizable against the sequential model", len(ops), cs)
		c.SetHistory(describeHistory(ops, model.DescribeOperation, 200))
	}
	if c.R.Overlaps > 0 {
		c.Nontrivial()
	}
	c.Sig(historySig(ops, model.DescribeOperation))
}

func countOverlaps(ops []porcupine.Operation) int {
	n := 0
	for i := range ops {
		for j := i + 1; j < len(ops); j++ {
			if ops[i].Call < ops[j].Return && ops[j].Call < ops[i].Return {
				n++
			}
		}
	}
	return n
}

// historySig is stamp-free: operations by completion order.
func historySig(ops []porcupine.Operation, desc func(in, out interface{}) string) string {
	cp := append([]porcupine.Operation(nil), ops...)
	sort.Slice(cp, func(i, j int) bool { return cp[i].Return < cp[j].Return })
	var sb strings.Builder
	for _, o := range cp {
		fmt.Fprintf(&sb, "%d:%s;", o.ClientId, desc(o.Input, o.Output))
	}
	return sb.String()
}

// poisonArgs overwrites a variadic argument slice after the call returned: the caller owns that slice again (a
// producer reusing its batch slice), so a library that kept a reference to it would now show values nobody put.
func poisonArgs(args []interface{}) {
	for i := range args {
		args[i] = -999
	}
}
