#!/usr/bin/env python3
"""Regenerates /verif/MANIFEST.json from the table below (run after adding a property check)."""
import json, os, subprocess
V = os.path.dirname(os.path.dirname(os.path.abspath(__file__)))
props = [json.loads(l) for l in open(os.path.join(V, 'properties.jsonl'))]
built = subprocess.run([os.path.join(V, 'tools', 'list_built.sh')], capture_output=True, text=True).stdout.split()

LEVEL = {
 'C01': 'Deciding step: order-chain oracle over every consumer stream / Slice snapshot of long concurrent runs, and porcupine linearizability of short histories against a sequential Buffer model whose cleaner may make any number of passes.',
 'C02': 'Deciding step: position model per consumer, porcupine on shared consumers, complete enumeration of operation sequences up to length 4 (quick) / 5 (thorough) against the model, and fault injection through a recording Consumer decorator for Range.',
 'C03': 'Deciding step: cleaner functions compared with a reference on a completely enumerated small family; sequential differential runs; an online monitor wrapped around the cleaner inside the library lock; porcupine with forced trims.',
 'C04': 'Deciding step: bounded-progress monitor on the quiescent size (heartbeats, not wall-clock), with the lost-wake-up and forced-trim windows entered deliberately through hook gates and, for the cleaner call itself, through a pass-through Cleaner that holds one evaluation open.',
 'C05': 'Deciding step: every event set is fired at every placement around the waiter (before / after the miss / held between predicate and cond.Wait / parked); the call must return within the heartbeat bound with the right result class.',
 'C06': 'Deciding step: receipt table per message against each Send return value, must/must-not receive sets from stamps, and one global order derived from a sentinel subscriber.',
 'C07': 'Deciding step: every call bounded by heartbeats with goroutine dumps, recover around every call, final accounting and a post-scenario round trip; 40 hold-until window combinations are driven through hook callbacks.',
 'C08': 'Deciding step: conservation in closed scenarios (registered = delivered + absorbed), per-value receipts with concurrent senders, and a completely enumerated Add-sequence family against a sequential reference.',
 'C09': 'Deciding step: online per-key counters at work-function entry/return (outer wrapper and inner user function), plus a gate-based independence probe.',
 'C10': 'Deciding step: offline checker over stamped calls and executions (exactly one outcome, started after the call, same key, supplier answered by its own execution, no state left).',
 'C11': 'Deciding step: the Go race detector over generated concurrent programs per type, with the harness free of shared synchronisation; thorough adds the repository suite under -race and a second Go runtime.',
 'C12': 'Deciding step: per-handle close semantics asserted inline and a goroutine-dump leak filter at the end state of generated programs.',
 'C13': 'Deciding step: porcupine linearizability against a sequential Channel model, conservation against the source, a completely enumerated sequential family, and Close-vs-Get micro-trials.',
 'C14': 'Deciding step: online counters (exactly once, running <= largest count requested), bounded progress and bounded bypass for starvation, invariant sampling through VerifState.',
 'C15': 'Deciding step: receipts per publish against an independent eligibility table, over randomised readiness/cancellation orders.',
 'C16': 'Deciding step: step machine against a reference for every pre-cancelled subset and cancellation order (complete for n<=3), plus simultaneous cancellations with the hook window held, and cancellations placed inside the constructors through pass-through Context probes (k-th Err/Done consultation of an input cancels another).',
 'C17': 'Deciding step: offline interval checker over stamps taken before/after each observation, so that every reported order is sound under arbitrary delays.',
 'C18': 'Deciding step: lock-step reference loop on completely enumerated scripts with the delays observed through the retry hooks.',
 'C19': 'Deciding step: differential testing of generated signatures, arguments and targets against an independent well-typedness reference, incl. a completely enumerated small family.',
 'C20': 'Deciding step: counting/ordering monitor with heartbeat bounds and a leak filter, cancellation raced against ticks through hook gates.',
}
TECH = {
 'C01': 'order-chain oracle over unique-id histories + porcupine linearizability (nondeterministic cleaner model), hook-perturbed schedules',
 'C02': 'per-consumer sequential model over recorded positions, porcupine on shared consumers, fault-injecting Consumer decorator for Range, bounded-exhaustive op sequences',
 'C03': 'reference cleaner (exhaustive small family) + online invariant at the cleaner extension point and at VerifSnapshot + sticky-error monitor',
 'C04': 'bounded-progress monitor (heartbeats) on Size at quiescence, directed lost-wake-up windows via hooks',
 'C05': 'directed event placement around waitcond.park via hook gates + bounded-progress and position-model oracle',
 'C06': 'receipt-table / order-chain oracle over unique message ids with sentinel subscriber',
 'C07': 'bounded-progress + panic monitor under directed unsubscribe windows (hook gates), final accounting',
 'C08': 'closed-scenario conservation oracle + sequential registration-count reference on boundary deltas',
 'C09': 'online per-key active-execution counter, gate-based independence probe',
 'C10': 'offline exactly-once / started-after-call checker over stamped call and execution records',
 'C11': 'Go race detector over contract-respecting concurrent programs per type (harness sync stripped), reports attributed by source file and de-duplicated by function pair; thorough: + repository suite under -race, + go1.26.8 runtime',
 'C12': 'goroutine-dump leak filter + per-handle close semantics monitor over generated programs',
 'C13': 'porcupine linearizability vs sequential Channel model + conservation + Close-vs-Get micro-trials',
 'C14': 'online running/max counters, exactly-once result ids, bounded progress and bounded bypass (sustained arrivals), VerifState invariant sampling',
 'C15': 'receipt table per publish vs independent eligibility reference (Go assignability), permuted readiness/cancel orders',
 'C16': 'step-machine reference over cancellation orders (enumerated n<=3) + simultaneous-cancel stress with hook gate + client-side probes inside the constructors',
 'C17': 'offline interval/order checker over stamped Do/done/stop/exit events, directed last-done-vs-Do races',
 'C18': 'lock-step reference loop on scripted outcomes with observed delays (VerifRetryObserve), cancellation at every point',
 'C19': 'differential testing of generated signatures/arguments/targets against an independent well-typedness reference (random + bounded-exhaustive)',
 'C20': 'count/order/close monitor with bounded-progress and leak filter, cancellation raced against ticks via hooks',
}
checks = []
for p in props:
    pid = p['id']
    if pid not in built:
        continue
    checks.append({
        'property_id': pid,
        'quick_cmd': './check %s quick' % pid,
        'thorough_cmd': './check %s thorough' % pid,
        'evidence_file': '/verif/evidence/%s.json' % pid,
        'replay_cmd_template': './check --replay {path}',
        'engine': 'bbverif',
        'level_claimed': {
            'category': 'exploration',
            'text': 'Runtime monitoring: the real library is executed under generated hostile workloads (seeded, hook-perturbed schedules, directed windows) while a deterministic oracle checks every recorded execution; it holds on the executions explored (counts in the evidence file) and is not a proof over all schedules/inputs. ' + LEVEL[pid],
            'design_ref': 'DESIGN.md §7 ' + pid,
        },
        'level_note': 'Trusted: the harness oracles/reference models (DESIGN.md appendix A), the Go runtime and race detector, the verif-tagged hooks being behaviour-preserving (add-only one-line calls). Schedules are sampled, liveness is restated as generous heartbeat bounds.',
        'technique': TECH[pid],
    })
na = [{'property_id': p['id'], 'reason': 'check not yet built in this session (runtime monitor designed in DESIGN.md §7 %s); not claimed until it exists' % p['id']} for p in props if p['id'] not in built]
hooks_commits = subprocess.run(['git', '-C', '/repo', 'log', '--format=%H', '--grep=^verif:'], capture_output=True, text=True).stdout.split()
m = {
    'version': 1,
    'setup_cmd': './check --build',
    'hooks': {
        'guard': 'verif',
        'enable': 'go build -tags verif (harness module /verif/harness with replace github.com/joeycumines/go-bigbuff => /repo); hooks: verif_on.go + one-line verifHook("site") calls',
        'baseline_off_cmd': '/verif/tools/baseline.sh',
        'source_commits': hooks_commits,
        'add_only': True,
    },
    'engines': [{
        'name': 'bbverif',
        'path': '/verif/harness',
        'serves_properties': [c['property_id'] for c in checks],
        'kind_free_text': 'Go harness: parent spawns child processes per scenario batch (GOMAXPROCS rotated, timeout -s QUIT), children drive the real library under seeded hook perturbation and run oracles (order chain, conservation, porcupine linearizability, reference models, goroutine-dump leak filter, race detector for C11)',
    }],
    'checks': checks,
    'notes': 'Entry point ./check <id> <quick|thorough>; VERIF_SEED selects the PRNG seed; exit 0 held / 1 VIOLATION / 2 harness error or observed nothing. KNOWN_FINDINGS.txt lists recorded findings and fixed defects (fix commits in /repo: 30c3f5b, 49ec4b8, 82626f4, 1f1f52e, b0fbace, e2030ae, 3c978d0; hook commit 2f55ca1).',
    'not_applicable': na,
}
json.dump(m, open(os.path.join(V, 'MANIFEST.json'), 'w'), indent=1)
print('checks:', [c['property_id'] for c in checks], 'not claimed:', [n['property_id'] for n in na])
