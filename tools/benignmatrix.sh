#!/bin/bash
# Dev tool: negative controls — behaviour-preserving changes (tools/mutants/benign.txt) must leave every check silent.
TIER=${1:-quick}; FILTER=${2:-.}
V=$(cd "$(dirname "$0")/.." && pwd); cd "$V"
grep -v "^#" "$V/tools/mutants/benign.txt" | grep -E "$FILTER" | while IFS='|' read -r props name mut; do
  out=$("$V/tools/mut.sh" "$mut" "$props" "$TIER" 2>&1)
  res=$(echo "$out" | grep -oE "^== C[0-9]+ [a-z]+ seed=[0-9]+ exit=[0-9]+" | sed -E 's/== (C[0-9]+) .*exit=([0-9]+)/\1:\2/' | tr '\n' ' ')
  case "$out" in *"DID NOT CHANGE"*) res="NOCHANGE";; *"DOES NOT BUILD"*) res="NOBUILD";; esac
  echo "$name|$res"
done
