// Package core is the framework shared by all property checks.
package core
