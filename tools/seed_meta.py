#!/usr/bin/env python3
"""Dev tool: turn confirmed incoming seeds into /verif/seeded/<id>-<n>/{patch.diff, demo, meta.json}."""
import glob, json, os, shutil, sys
V = os.path.dirname(os.path.dirname(os.path.abspath(__file__)))

# (summary, what it needs in order to manifest) per seeded change, as reported by the sub-agent that wrote it
INFO = {
 'C01-m1': ('consumer.Get releases the consumer mutex while waiting on the async result', 'two operations on one consumer while a Get is blocked on an empty buffer (duplicate, then a gap)'),
 'C01-m2': ('Buffer.commit clamps the stored offset to the buffer start', 'a forced eviction overtakes a consumer holding uncommitted reads, which then Commits and Gets again (values silently skipped)'),
 'C02-m1': ('consumer.Get releases the consumer mutex while waiting on the async result (same site as C01-m1, written independently)', 'several goroutines sharing one consumer with a Get on the async path; Rollback/Commit during a blocked Get'),
 'C02-m2': ('Buffer.Range evaluates Diff before calling the user callback instead of after', 'a Put landing during the callback of the value that was last when the callback started'),
 'C03-m1': ('cleanupLogic advances the offset before clamping the shift', 'a cleaner asking for more than the buffer holds (FixedBufferCleaner with negative target / over-asking custom cleaner)'),
 'C03-m2': ("Buffer.get's 'past' guard uses the committed offset only", 'a forced trim while a consumer holds uncommitted reads spanning the trim point, then a Get'),
 'C04-m1': ('Buffer.delete broadcasts only when the last consumer is removed', 'closing the unique slowest of several consumers, outside a cooldown window, with no later activity'),
 'C04-m2': ('end-of-cooldown re-check uses cond.Signal instead of Broadcast', 'cooldown > 0, last change inside the window, other caught-up consumers blocked in Get sharing the cond, unlucky requeue order'),
 'C05-m1': ("WaitCond's cancel watcher becomes context.AfterFunc without taking the cond's lock", 'cancellation between the waiter\'s ctx check and cond.Wait (lost wake-up)'),
 'C05-m2': ('Buffer.Diff takes the buffer lock before the consumer lock', 'Diff/Range from another goroutine on a consumer whose Get is blocked: nothing can wake it (deadlock)'),
 'C06-m1': ('SubscribeContext iterator returns after Wait but before yield when ctx is cancelled', 'cancellation between the channel receive and the return of Wait while a Send is in flight'),
 'C06-m2': ('positive Add skips sendingMu.RLock when the subscriber count is 0', 'the last subscriber withdraws mid-Send and a newcomer joins between its count decrement and its drain'),
 'C07-m1': ('iterator entry guard becomes !stop() || ctx.Err() != nil', 'context cancelled between stop() and ctx.Err() (non-standard Context: cancel then iterate before the AfterFunc watcher runs): subscription leaks'),
 'C07-m2': ('Send returns early when sent==0 without marking success', 'every counted subscriber leaves after the Send armed: instance marked broken although the contract was obeyed'),
 'C08-m1': ('positive delta bounds check done on the truncated 32-bit value', 'delta >= 2^32 with a small low word is silently accepted'),
 'C08-m2': ('Send unlocks explicitly and forgets the post-broadcast panic path', 'an unbalanced Add during an armed Send: the Send panics and leaks the lock; later calls block instead of panicking'),
 'C09-m1': ('key cleanup moved outside the item lock', 'a caller registering between the item unlock and the root lock while the key goes idle (stress)'),
 'C09-m2': ('fast path skips the root re-check for idle items', 'a caller that fetched an item before it was deleted and locks it afterwards (hook excl.call.fetched)'),
 'C10-m1': ('missing unlock on the Start early-return in the already-complete path', 'a Start is first on a pending item, later Calls register, one of them runs the batch'),
 'C10-m2': ('item.work/wait assigned before the validity re-check', 'a stale-item caller overwrites the in-flight batch\'s work between the runner\'s unlock and the work call'),
 'C11-m1': ('SetCleanerConfig replaces the config pointer again (reintroduces the race fixed in 49ec4b8)', 'SetCleanerConfig concurrent with any other Buffer method; visible to the race detector only'),
 'C11-m2': ('Channel.Buffer copies outside the mutex', 'Buffer() concurrent with Commit() while values are pending'),
 'C12-m1': ('Channel.Get serves rolled-back values before checking the closed state', 'Get(s), Rollback, Close, Get: a value with nil error after close'),
 'C12-m2': ("Buffer.ensure drops the inner 'done == nil' re-check", 'concurrent first use of a zero-value Buffer with a Done() caller: an early Done channel never closes'),
 'C13-m1': ('Channel.Rollback assigns instead of adds', 'a second Rollback during a partial replay'),
 'C13-m2': ("Channel.Get's closed check hoisted out of the mutex", 'Close winning the mutex between the unlocked check and Lock: a value taken after Done'),
 'C14-m1': ('worker releases its slot in a defer, separate from the exit decision', 'decreasing count with simultaneous completions, or a Call racing an idle exit (starvation)'),
 'C14-m2': ('Call sizes the pool and enqueues in two critical sections', "a worker's idle-exit check between the two sections (~50ns): item queued with no worker"),
 'C15-m1': ('skip of already-cancelled subscribers removed', 'a cancelled-but-not-unsubscribed subscription with a ready target receives about half the time'),
 'C15-m2': ('registry read lock released before the blocking select', 'Unsubscribe (and re-Subscribe under another key) while a publish is parked on the target'),
 'C16-m1': ('ConflatedContext liveness flag becomes last-wins', 'last input already cancelled at construction while an earlier one is live'),
 'C16-m2': ("ChainAfterFunc fast path ignores stop()'s result when the primary is already cancelled", 'both contexts already cancelled at registration: f runs twice'),
 'C17-m1': ('wait() splits the stop decision and close(stop) into two critical sections', 'a Do between the Unlock and re-Lock (hook worker.wait.stopping): stop closed while held'),
 'C17-m2': ('Do registers the holder (wg.Add) after releasing the mutex', 'the watcher acquiring the mutex between Unlock and Add (mutex hand-off under contention)'),
 'C18-m1': ('per-iteration ctx check hoisted; zero-delay retries skip it', 'cancellation during a call that errs, then a zero random slot: another call is started'),
 'C18-m2': ('attempt counter hoisted out of the returned closure', 'the same returned function invoked again: delays out of range (and a race when concurrent)'),
 'C19-m1': ('typed-nil arguments collapsed to nil interface', 'a typed nil pointer/map/slice passed to an interface-typed or variadic-interface parameter'),
 'C19-m2': ('untyped-nil result target reaches v.Type() on the zero Value', 'CallResults with an untyped nil among the targets'),
 'C20-m1': ('post-tick guard weakened to ctx.Err() == context.Canceled', 'a deadline context with ticks always ready: more than one tick forwarded after expiry'),
 'C20-m2': ('count==1 fast path placed before the context check', 'count==1 with a context cancelled beforehand: a value instead of closed-and-empty'),
 # round 2 (sub-agents were additionally told which changes already existed, to get different mechanisms)
 'C01-m3': ('consumer.Commit applies the buffer commit without holding the consumer mutex (snapshot, unlock, commit, re-lock, subtract)', 'a Get on the same consumer from another goroutine inside Commit: values skipped, then the position moves backwards'),
 'C01-m4': ("Buffer.Put adopts the caller's variadic slice when the buffer is empty", 'a producer that reuses its batch slice after Put returned: accepted values are overwritten'),
 'C02-m3': ("package Range hoists its per-iteration 'success' flag out of the loop", 'one value committed, then the callback panics on a later value: the in-flight value is not rolled back'),
 'C02-m4': ('consumer.Commit zeroes the pending offset, releases the mutex, then commits to the buffer', 'a Get by another goroutine sharing the consumer inside that window: a committed value is returned again and the next one is lost'),
 'C03-m3': ('Buffer.NewConsumer snapshots the offset under a read lock and registers it later under the write lock', 'a cleaner shift between snapshot and registration: the new consumer starts behind the buffer and gets an offset error under the default cleaner'),
 'C03-m4': ('consumer.Commit drops the consumer lock around the buffer commit and subtracts afterwards', 'a Diff from another goroutine between the buffer commit and the consumer adjustment: Diff is a batch too low'),
 'C04-m3': ('the cooldown timer goroutine no longer takes the buffer lock before re-broadcasting (undoes fix 30c3f5b in different words)', 'the last commit/close inside a cooldown window with the loop between its check and cond.Wait when the timer fires'),
 'C04-m4': ("Buffer.commit broadcasts only when the consumer's previous committed offset was the buffer head", 'a FixedBufferCleaner forced trim overtakes a consumer holding uncommitted reads, which then commits everything: the cleaner never runs again'),
 'C05-m3': ("getAsync's sender goroutine waits before its first check (inline loop instead of WaitCond)", 'a Put between the synchronous miss and the goroutine parking, with no later broadcast'),
 'C05-m4': ("WaitCond's cancel watcher uses cond.Signal instead of Broadcast", 'another waiter parked earlier on the same cond (second consumer, or the idle cleaner): the cancelled waiter is never woken'),
 'C06-m3': ('Send releases sendMu after the ping phase instead of after the pong phase', 'two concurrent senders and a subscriber that is slow between receiving and Wait: a fast subscriber eats its pong, receives twice'),
 'C07-m3': ('SubscribeContext registers the AfterFunc before subscribing', 'an already-cancelled context (with or without a Send in progress): unsubscribe runs before the subscription exists'),
 'C07-m4': ("the iterator's Unsubscribe is no longer deferred", 'a loop body that panics (recovered outside) or Goexit: the subscription leaks and the next Send blocks'),
 'C08-m3': ("positive Add validation drops 'receivers >= delta'", 'an unbalanced negative Add followed by a positive Add large enough to wrap back: no panic, wrong count'),
 'C08-m4': ('positive Add takes the read lock only when the state is non-zero', 'three parties: an Add between its load and its atomic add while another registration and a Send arming land in that gap'),
 'C09-m3': ("claim ('running = true') forgotten on the 'wait already elapsed' path", 'two or more delayed calls queued behind work that runs longer than their wait: all of them run concurrently'),
 'C09-m4': ("start-style work releases the successor inside resolve", 'a Start-claimed batch whose work keeps running after resolve (raw ExclusiveWork / rate limit)'),
 'C10-m3': ("resolve guarded by an unlocked 'item.complete' read instead of sync.Once", 'a work function whose resolution runs on another goroutine as it returns: resolved twice (send on closed channel)'),
 'C10-m4': ('Start escape hatch evaluated outside the validity guard', 'a Start holding a stale (deleted) next item with count 0 returns without registering: its function never runs'),
 'C11-m3': ("CombineContext registers the deregistration callback (a closure reading 'stops') before filling 'stops'", 'one of the others cancelled by an unrelated goroutine during/just after registration: unsynchronised read of the slice (race detector)'), 'C11-m4': ('Exclusive runner reads item.wait after releasing the item mutex', 'a second delayed call joining the key while the first runner computes its wait (race detector)'), 'C12-m3': ("Buffer.Close waits with 'if' instead of 'for'", 'a consumer that cannot close at once (uncommitted read) plus any broadcast: Close returns and Done closes while consumers are open'), 'C12-m4': ('Buffer.Diff takes the buffer read lock before the consumer lock (written independently of C05-2)', 'a Diff in flight when the consumer is closed: consumer.Close deadlocks against it'), 'C13-m3': ('Channel.Buffer copies outside the mutex', 'a Commit between the unlock and the end of the copy: a torn snapshot with nil holes'), 'C13-m4': ('Channel.Buffer sized with pending() instead of len(buffer)', 'Buffer() while a rollback is outstanding: the values waiting to be replayed are omitted'), 'C14-m3': ('worker pops from the tail of the queue (LIFO)', 'a sustained arrival stream that never lets the queue drain: the oldest queued call is overtaken forever'), 'C14-m4': ('result channel unbuffered + non-blocking send in the worker (two cooperating sites)', 'the function finishes before its caller reaches the receive: Call returns (nil, nil)'),
 'C15-m3': ('failure case and ref appended before the element-type check', 'a subscription with a context and an incompatible element type, then a cancellation during the parked publish: another subscription loses its delivery (or a bounds panic)'), 'C15-m4': ("duplicate Subscribe allowed when the existing subscription's context is cancelled", 'Subscribe, cancel, Subscribe again before Unsubscribe: no panic, registry entry overwritten'), 'C16-m3': ("ChainAfterFunc's primary hook becomes 'if stop() && other.Err() == nil'", 'both contexts cancelled within a few hundred ns by different goroutines: f never runs'), 'C16-m4': ("ChainAfterFunc's primary hook checks other.Err() first and then calls stop(); f() unconditionally", 'other cancelled between the liveness check and stop() (hook chain.primary sits there): f runs twice'), 'C17-m3': ('wait() skips close(stop) when the instance function has already returned', 'an instance function returning on its own while held: its stop channel is never closed'), 'C17-m4': ("Do restarts a 'dead' instance (new running() helper) while the old watcher is alive", 'fn returns early, a second Do starts another instance, first holder done: the orphaned watcher closes the second stop channel while held'), 'C18-m3': ('named results in the retry closure: a stale result survives to the cancellation return', 'an operation returning a non-nil result with a plain error, then cancellation'), 'C18-m4': ("isFatalError becomes 'unpackFatalError(err) != err'", 'a plain error of an uncomparable dynamic type: runtime panic comparing interfaces'),
 'C19-m3': ('CallResultsSlice grows the target slice when the option is applied', 'a valid CallResultsSlice option followed by a failing option: the target was touched on the error path'), 'C19-m4': ("CallArgs hoists 'in'/'err' into the option's outer scope (shared by every application)", 'one option value applied concurrently to callables of different signatures'), 'C20-m3': ("'last = t' dropped: the clamp only compares with the initial timestamp", 'short rates or jitter with a prompt receiver: timestamps go backwards'), 'C20-m4': ("post-tick guard only when the buffer is empty ('len(c) == 0 && ctx.Err() != nil')", 'buffer full at cancellation and a receive between the guard and the send: unchecked ticks after cancel'),

 # round 3 (asked for hard-to-detect changes: cooperating edits, rarely combined calls, delayed effects, three parties)
 'C01-m5': ("two cooperating edits: consumer.Get checks 'closed' before taking the mutex; Buffer.get no longer errors for an unknown consumer", 'a Get queued behind Close on a buffer that never shifted: it returns buffer[0] (a committed value) with a nil error'),
 'C01-m6': ('Buffer.commit nils the values every consumer has committed, before the cleaner shifts them', 'a consumer created during the cooldown reads nil instead of the retained values'),
 'C02-m5': ('Buffer.Diff reads the buffer size in a separate lock section', 'a cleaner shift between the two sections while Range evaluates the last value: Diff over-reports and Buffer.Range blocks'),
 'C02-m6': ("Buffer.Put keeps the caller's variadic slice when nothing is buffered (independent rediscovery of C01-4)", 'a producer reusing its batch slice while reads are uncommitted: Rollback returns different values'),
 'C05-m5': ("getAsync's predicate treats a nil value as 'nothing there yet'", 'a Get already parked when Put(nil) arrives: never woken'),
 'C05-m6': ("two cooperating edits: getAsync's result channel unbuffered; Get bails out early if its ctx is cancelled before it parks", 'cancellation between the synchronous miss and the park: the sender goroutine blocks forever holding the buffer lock (everything wedges later)'),
 'C06-m5': ("Send skips the acknowledgement wait when exactly one subscriber received ('for sent > 1 && pongN != 0')", 'a lone slow subscriber, then a newcomer before its Wait, then the next Send: the leftover pong lets the newcomer receive twice'),

 'C09-m5': ("the nested 'already complete' check collapsed to 'if item.complete && outcome != nil'", 'a Start that owns a waiter goroutine wakes on a batch another waiter already ran: it claims the completed item again and runs the work a second time, forking the chain'),
 'C09-m6': ("ExclusiveRateLimit runs the work in a goroutine and returns on context cancellation", "the limiter's context cancelled while the work is in flight, followed by a call on the key that is not gated by that context: the user's work functions overlap"),
 'C12-m5': ("two cooperating edits: getAsync no longer waits on the buffer's context and Buffer.get no longer reports it; consumer.Get no longer passes the consumer's context", 'Buffer.Close while a Get whose own context is never cancelled is blocked: nothing wakes it, Close never returns'),
 'C13-m5': ("Channel.Get checks for a pending replay once at entry instead of on every poll iteration", 'a Rollback by another goroutine while a Get polls an empty source, then a fresh value: it is returned ahead of the replay and later replays are shifted'),
 'C13-m6': ("Channel.Commit compacts the remainder to the front and then clears the committed slots", 'Rollback, partial re-read, Commit covering more values than remain to be replayed: the moved values are nil-ed'),
 'C14-m5': ("two cooperating edits: Wait caches the cond once; the last idle worker resets w.cond/w.queue to nil", 'a goroutine parked in Wait, the pool going idle, and a new Call winning the mutex: the waiter re-parks on an orphaned cond forever'),
 'C14-m6': ("the idle worker uses cond.Signal instead of Broadcast", 'two or more goroutines parked in Wait when the pool drains: only one returns'),
 'C17-m5': ("do() reads its stop/done channels under the Worker mutex", 'the only holder calls done before the instance goroutine took its first step: the watcher holds the mutex waiting for an instance that can never start'),

 'C10-m5': ("three cooperating edits: resolve broadcasts only if the batch had waiters (stale snapshot); a Start runner releases the item lock before swapping the map entry; the final wake-up uses Signal", 'a Start runner, a Call registering in the unlock-to-swap gap, a second Call during the work, then quiescence: the second call is never answered and the key stays in the map'),

 'C03-m5': ('Buffer.commit clamps the stored committed offset to the buffer start (independent rediscovery of C01-2)', 'a forced trim past a consumer\'s read position while it holds uncommitted reads, then Commit: it is silently re-based and reads on without an error'),
 'C03-m6': ("Buffer.Put adopts the caller's variadic slice when the buffer is empty (independent rediscovery of C01-4)", 'a producer reusing its batch slice: Slice/streams show overwritten values'),
 'C04-m5': ("a wake-up during the cooldown also resets the timer ('debounce')", 'traffic that never pauses for a whole cooldown: the re-check never fires and nothing is reclaimed while the traffic lasts'),
 'C04-m6': ("in-window changes are remembered only when a consumer exists", 'FixedBufferCleaner, no consumers, a burst of Puts crossing max inside an open cooldown window, then silence: the buffer stays above max'),
 'C15-m5': ("a nil publish overwrites its own value with the first nillable subscriber's typed zero", 'Publish(key, nil) to two or more subscriptions with different nillable element types: the later ones are skipped or get a typed nil'),
 'C15-m6': ("assignability narrowed to 'identical type, or implements the interface'", 'a value and element type that are assignable by the other rules: named/unnamed with the same underlying type, bidirectional to directional channel'),
 'C16-m5': ('ConflatedContext skips inputs whose Done() is nil', 'a never-cancellable input (context.Background) next to inputs that get cancelled: the result is cancelled although an input is live forever'),
 'C16-m6': ("CombineContext folds a deadline-bearing other into WithDeadline instead of registering a callback", 'an other that carries a deadline and is cancelled early (defer cancel / cancelled parent): the result stays live until the deadline'),
 'C18-m5': ("the per-iteration cancellation check returns context.Cause(ctx) instead of ctx.Err()", 'a context cancelled with a custom cause (WithCancelCause / WithTimeoutCause, or a child of one): the cause is returned instead of the context\'s error'),
 'C18-m6': ("a fail-fast before the wait: gives up with DeadlineExceeded when the drawn delay exceeds the time left", 'a context that carries a deadline and a drawn delay longer than the time left: returns while the context is not cancelled, skipping calls that would still have been made'),
 'C08-m5': ("two cooperating edits in Send's arming loop: the state is re-read only after a failed CAS, and the invariant check also rejects zero receivers", 'the sole receiver deregisters between Send reading the state and arming it: Send panics although everybody obeyed the contract'),
 'C08-m6': ("Send's receiver bound rewritten as an overflow check, off by one", 'Add(MaxInt32) then Add(1) (which panics) then Send: the poisoned state hi=lo=2^31 is accepted and Send blocks delivering to 2^31 receivers'),
 'C11-m5': ("Buffer.Put adopts the caller's variadic slice when the buffer is drained", 'a spread Put(ctx, batch...) on a drained buffer by a producer that reuses batch afterwards: the buffer shares the backing array (unsynchronised read in Buffer.get vs the producer write)'),
 'C11-m6': ("two cooperating lock-narrowing edits in Exclusive.call (item fields written under the item mutex only; the end-of-run count check under the root mutex only)", 'a runner finishing while a second call on the key has fetched the item and is about to register: count++ and the count read share no lock (race detector)'),
 'C19-m5': ("signature cache keyed by reflect.Type.String()", 'a Call on signature A, then one on a different signature B that prints identically (homonymous types): B is validated against A (spurious error, or reflect panic on a wrongly typed argument/target)'),
 'C19-m6': ("CallArgs returns early for an empty argument list when the function is variadic", 'mandatory parameters plus a variadic tail called with CallArgs(): reflect panics with too few input arguments'),
 'C20-m5': ("the entry guard selects on a hoisted ctx.Done() instead of checking ctx.Err()", 'a context already cancelled by Err() whose Done() never closes (the shape the repo example uses): the channel yields a value and a producer is started'),
 'C20-m6': ("the final value is handed over by a blocking send with the ticker stopped", 'a context that reports cancellation through Err() only, the count-th value due while the buffer is full, then cancellation: the producer never re-checks and never exits unless drained'),
 'C05-m7': ("the parked getter's predicate skips the real check when the buffer length is unchanged since it last looked", 'a forced trim of k values and a Put of k values between two wake-ups of a parked Get (FixedBufferCleaner hovering at target plus a batched Put): the value is there, the Get stays parked'),
 'C08-m7': ("Send carries its pre-lock load of the state into the arming loop", 'a Send that starts while another Send is armed (blocked on a slow receiver): it validates the stale armed snapshot and panics although everybody obeyed the contract'),
 'C08-m8': ("negative Add checks its bound after negating the delta", 'exactly Add(math.MinInt): -delta overflows, the check passes, the packed operand is 0 and the call returns like Add(0)'),
 'C14-m7': ("shrinking retires workers by spawn slot instead of by live count", 'low-slot workers idle-exit while a high-slot worker is busy, then a Call with a smaller count queues behind it and nothing follows: the last worker retires with the queue non-empty'),
 'C14-m8': ("argument validation moved inside Call's critical section (explicit Unlock, no defer)", 'a rejected Call(0, f) (documented panic) recovered by its caller on a pool in use: the mutex is never released, queued and later calls never run'),
 'C15-m7': ("SubscribeCancel starts its unsubscribe watcher before SubscribeContext", 'a duplicate SubscribeCancel on an existing (key, target): it panics, the deferred cancel fires the watcher, which unsubscribes the ORIGINAL subscription'),
 'C15-m8': ("SubscribeCancel registers the subscription with the parent context instead of the derived one", 'the returned cancel function called while a publish is parked on that (non-receiving) target: the publish never returns and the internal Unsubscribe waits behind it'),
 'C16-m7': ("ConflatedContext counts the live inputs in one pass and registers them in a second", 'an input cancelled while the constructor runs, between the count pass and its registration: counted, never registered, the result can never be cancelled by its inputs'),
 'C18-m7': ("a cancellation check before the fatal-error check after a failed call", 'the context cancelled during a call that then fails fatally: the context error with a nil result instead of that call\'s result and the unwrapped error'),
 'C18-m8': ("an overflow clamp on the rate in calcExponentialRetry, off by one bit", 'a legal rate in (2.147s, 4.295s]: silently replaced by 2147483647ns, delays are no longer whole slots of the rate'),
 'C19-m7': ("a scalar-kind fast path in resolveArgs accepts any argument of the same kind", 'an argument of the same bool/numeric/string kind but a different type (int64 for time.Duration, string for a named string type): passes validation and reflect.Set panics'),
 'C19-m8': ("Call takes its config from a sync.Pool and does not clear it on the option-error paths", 'a Call whose non-first option fails, then a Call with fewer option kinds: stale args/results from the failed call are applied'),
 'C20-m7': ("ticker created before the initial publish, and the clamp no longer knows the initial value", 'rate shorter than the time between arming the ticker and stamping the first value (about 100 ns): the second value is older than the first'),
 'C04-m7': ("cleanupLogic rejects a shift larger than the buffer instead of clamping it", 'FixedBufferCleaner with a negative target (still target <= max) or an over-asking custom cleaner: the forced trim is never applied and the quiescent size exceeds max'),
 'C04-m8': ("cleanupLogic releases the buffer mutex around the Cleaner call", 'the last commit/close of the slowest consumer lands while the cleaner is being evaluated in the final iteration of a pass, then silence: the broadcast finds nobody waiting and is not recorded for the cooldown either'),
 'C10-m7': ("ExclusiveRateLimit creates its padding timer once per option value and Resets it per execution", 'one ExclusiveRateLimit option value shared by two keys with overlapping rate-limited tails: one tail never gets its tick, the key stays running and later calls on it are never answered'),
 'C10-m8': ("the resolve-not-called fallback is skipped when the runner belongs to a Start-style call", 'a Start/StartAfter first on the item, a blocking or async call coalesced into the same batch, and a work function that returns without resolving: the coalesced call hangs'),
 'C12-m7': ("Buffer.Slice takes the read lock twice (calls Size() while holding RLock)", 'Slice concurrent with anything that takes the write lock (Put, Close, Commit, the cleaner timer) landing between the two RLocks: permanent deadlock of the buffer mutex'),
 'C01-m7': ("Buffer.Put re-checks the caller's context after it has appended and returns its error", 'the Put\'s own context cancelled while the call is queued behind the buffer lock: the Put reports an error but its values are in every consumer\'s stream'),
 'C02-m7': ("Buffer.Range's end-of-buffer check assumes exactly one read is in flight", 'reads left uncommitted before Buffer.Range is called (or made by the callback): the remaining count is over-reported and Range blocks at the end of the buffer instead of stopping'),
 'C06-m7': ("the nil-yield path of the SubscribeContext iterator unsubscribes unconditionally", 'the iterator called with a nil yield (documented panic, recovered) after its context was cancelled or after another call of it finished: the count drops one too low, later Sends miss a standing subscriber'),
 'C11-m7': ("the sync.Once guarding the resolve callback replaced by an unlocked check of item.complete", 'a work function that lets two goroutines call resolve at about the same time (or a late helper racing the runner\'s fallback resolve): unsynchronised read, double send/close'),
 'C11-m8': ("Buffer.Diff takes the consumer mutex with TryLock and reads the offset unlocked when that fails", 'Diff(c) called from a goroutine other than the one driving c while that one is in Get/Commit/Rollback'),
 'C13-m7': ("the replay branch of Channel.Get extracted into a helper that uses nil as its nothing-to-replay sentinel", 'an interface-typed source carrying a nil value, a Rollback covering it and a re-read reaching it: the nil is skipped, a fresh value is returned ahead of (and then instead of) the replays'),
 'C17-m7': ("registration hoisted above the start block and the nil-function check moved into the start helper", 'Do(nil) on an idle Worker recovered by its caller, then ordinary use: a phantom holder keeps the next instance from ever being stopped'),
 'C07-m7': ("the nil-yield guard and the already-stopped guard of the SubscribeContext iterator merged (same site and effect as C06-m7, written independently)", 'a SubscribeContext context cancelled before its iterator is used, then the iterator called with a nil yield (panic recovered) while another subscriber stands: second unsubscribe, later negative-subscribers panic and a broken instance'),
 'C03-m7': ("the cleaner is evaluated with the buffer lock released, behind a staleness check on size, offset and consumer COUNT only", 'one consumer closes and another is created while the evaluation is in progress (count unchanged): the stale shift is applied and evicts values the newcomer, which committed nothing, has not read'),
 'C03-m8': ("Buffer.Slice stops copying once the buffer is closed", 'Close, Slice, the caller overwrites the returned slice, Slice again: the retained contents have changed'),
 'C01-m9': ("cleanupLogic clears the evicted slots in a background goroutine and keeps the backing array when everything was evicted", 'every consumer has committed everything (full drain), then a Put lands before the clearing goroutine has finished: accepted values are overwritten with nil'),
 'C01-m10': ("Put appends in pieces of at most 8192 values, taking the lock per piece", 'one Put of more than 8192 values overlapping another producer: its values are no longer one contiguous run'),
 'C02-m9': ("package Range does not roll back when its Get returns an error", 'reads left uncommitted when Range is entered and a Get inside Range that fails: they stay pending, the next read skips them and a later Commit makes them permanent'),
 'C02-m10': ("Buffer.commit rejects commits once the buffer context is cancelled", 'reads pending, Buffer.Close (which waits for them), then Commit: refused, Close never completes'),
 'C03-m9': ("ensure() assigns the consumers map without re-checking under the lock", 'the first NewConsumer on a zero-value Buffer racing another first call: the map holding the new consumer is replaced, the consumer is open but unregistered (Diff false, its values evicted)'),
 'C04-m9': ("ensure() assigns the default cleaner config without re-checking under the lock", 'SetCleanerConfig(FixedBufferCleaner) as the first call racing another first call: it returns nil but the default config replaces it, nothing is ever trimmed'),
 'C06-m9': ("SubscribeContext registers the cancellation clean-up before subscribing", 'a context already cancelled or expiring while Subscribe waits behind a Send: the clean-up unsubscribes a subscription that was never counted and drains a standing subscriber\'s delivery'),
 'C07-m9': ("mid-send unsubscribe: the in-flight ping is decremented before the subscriber count", 'a subscriber leaving in the middle of Send #1 and a Send #2 right behind it: Send #2 counts the leaver again and never returns'),
 'C07-m10': ("ordinary unsubscribe: the sending read-lock is released before the count is decremented", 'a Send taking its locks in that gap counts the leaver and waits for it forever'),
 'C08-m9': ("negative Add no longer panics when the two packed counts disagree", 'Add(MaxInt32) three times (two panics, recovered) pushes the counters back into range but apart: a following negative Add returns a bogus count instead of panicking'),
 'C10-m9': ("coalesced callers are all sent the same *ExclusiveOutcome", 'a caller that annotates the outcome it received before another caller of the same execution has read its own'),
 'C11-m9': ("Exclusive.call skips the item re-validation for the call that created the item", 'the creator overtaken between creating and locking the item by a joiner whose runner has already replaced it: registers on a replaced item, unsynchronised write vs the runner\'s read'),
 'C12-m9': ("cleanupLogic tests shift <= 0 before clamping the shift to the buffer length", 'a custom cleaner that asks for more than there is, evaluated on an empty buffer: reports progress for ever, the cleanup goroutine spins holding the buffer lock; Put, NewConsumer, Close never return'),
 'C13-m9': ("Channel.Get re-checks the caller\'s context after its critical section and reports the error", 'the Get\'s context cancelled between the entry check and the end of the critical section: the value was taken and counts as read, but no Get ever returns it'),
 'C14-m9': ("Wait checks its condition once, and idle-exiting workers broadcast whenever the queue is empty", 'a goroutine parked in Wait, one worker idling out and another still executing: Wait returns with Count() != 0'),
 'C14-m10': ("Wrap allocates one result channel per wrapper and workers no longer close it", 'one wrapped function invoked from two goroutines with completions out of order: each gets the other execution\'s result'),
 'C15-m9': ("Unsubscribe releases its lock explicitly on the success path only", 'an unmatched Unsubscribe (panic, recovered) and then any use of the Notifier: everything blocks'),
 'C15-m10': ("PublishContext builds its select cases in a buffer stored on the Notifier", 'two concurrent publishers (read lock only): one selects on the other\'s cases: duplicates, misses, cross-key deliveries'),
 'C16-m9': ("CombineContext\'s registration pass skips others that are already cancelled, guarded only by an all-cancelled check", 'two or more others and a cancellation landing between the check pass and the registration pass: that other is never wired up'),
 'C16-m10': ("CombineContext filters nil others in place, in the caller\'s variadic slice", 'a slice with a nil before a non-nil entry passed with ..., then reused for a second call: that call also watches a context of the first'),
 'C17-m9': ("the watcher no longer waits for the instance to exit; Do waits for the old instance once, without re-checking", 'two Dos queued behind one stopping instance, the first starts and fully releases a new generation before the straggler re-locks: a third instance starts while the second still runs'),
 'C18-m9': ("a nil context is no longer replaced by Background, only skipped in the per-iteration check", 'nil context, a plain error and a non-zero drawn delay: nil dereference in the wait'),
 'C18-m10': ("FatalError returns its argument unchanged when the chain already holds a fatal wrapper (errors.As)", 'a fatal error built in layers with a plain annotation in between: not recognised as fatal, the loop goes on'),
 'C19-m9': ("parameter and result type lists memoised on the per-Call config, shared by all options", 'two options of one kind in one Call (defaults first, then overrides): the in-place edits of the first corrupt the second'),
 'C19-m10': ("the nil-kind switch extracted into a helper that omits UnsafePointer", 'an untyped nil for an unsafe.Pointer parameter: spurious not-assignable error'),
 'C20-m9': ("the Done case falls through to the guard, behind a skip-when-buffer-full pre-check", 'a standard context cancelled while a value is still buffered and nobody receives: the producer spins for ever, the channel is never closed'),
 'C02-m11': ("package Range detects an aborted callback with recover() instead of a success flag", 'a callback that calls runtime.Goexit (t.FailNow and friends): neither committed nor rolled back, the next read skips the value and its commit makes the skipped one permanent'),
 'C03-m11': ("Buffer.Diff clamps the consumer's relative position to the start of the buffer", 'a consumer behind a forced trim: Diff equals Size instead of values put minus read position'),
 'C10-m11': ("wrappers are applied lazily by the runner, from the runner's own config", 'calls with different wrappers coalesced into one execution whose runner is not the last registrant: the executed function is one call\'s wrappers around another call\'s work'),
 'C14-m11': ("the count check in Workers.check accepts zero", 'Call(0, f) on a pool in use with nothing following: target becomes 0, every worker retires with the queue non-empty, queued calls starve and Wait returns'),
 'C15-m11': ("a fast path of plain serial sends when no context is involved", 'two or more context-less subscriptions whose targets become ready only one after the other (one goroutine receiving in turn): Publish blocks on the first target in map order'),
 'C16-m11': ("CombineContext returns the already-cancelled other itself when the primary is nil", 'nil primary plus an other that is already cancelled and carries values: the result exposes that other\'s values'),
 'C18-m11': ("a plain error that is or wraps context.Canceled/DeadlineExceeded ends the loop with ctx.Err()", 'an operation with its own per-attempt context failing with a context error while the retry\'s context is live: returns (nil, nil) after one call'),
 'C18-m12': ("the delay is computed in floating point behind a saturation guard", 'a rate that is not a round number of nanoseconds and a high retry count (slots x rate above 2^53 ns): the delay is no longer a whole number of slots'),
 'C19-m11': ("a recover in callable.Call that turns reflect-looking panics into errors also covers the called function", 'a function that itself panics inside reflect (or with a string starting with reflect): its panic is swallowed and an error returned although it was invoked'),
 'C19-m12': ("CallResults unwraps interface results and skips nil ones", 'a target that already holds a non-nil interface value and a call that returns nil for it: the stale value stays'),

}

def main():
    for d in sorted(glob.glob(os.path.join(V, 'seeded', '_incoming', 'C*'))):
        name = os.path.basename(d)
        cj = os.path.join(d, 'confirm.json')
        if not os.path.exists(cj) or not os.path.getsize(cj):
            print('skip (no confirmation yet):', name); continue
        conf = json.load(open(cj))
        ok = (conf.get('demo_exit_without_patch') == 0 and conf.get('build_exit_with_patch') == 0
              and 'not_passing=0' in conf.get('baseline_with_patch', '') and conf.get('demo_exit_with_patch') not in (0, None))
        if not ok:
            print('NOT CONFIRMED:', name, conf); continue
        prop, m = name.split('-m')
        out = os.path.join(V, 'seeded', '%s-%s' % (prop, m))
        os.makedirs(out, exist_ok=True)
        shutil.copy(os.path.join(d, 'patch.diff'), out)
        demo = glob.glob(os.path.join(d, 'zz_demo_*_test.go'))[0]
        shutil.copy(demo, out)
        summary, needs = INFO[name]
        meta = {
            'property': prop,
            'summary': summary,
            'needs_to_manifest': needs,
            'origin': 'fresh sub-agent given only the property text and its own scratch git worktree of /repo' + (' (round 2: it was additionally told, in one line each, which changes other sub-agents had already produced for this property, so as to get a different mechanism)' if int(m) in (3, 4) else (' (round 3: told which changes already existed and asked for hard-to-detect ones: cooperating edits, rarely combined calls, delayed effects, three-party windows)' if int(m) >= 5 else '')),
            'demo': os.path.basename(demo),
            'demo_cmd': 'go test -vet=off%s -count=1 -run TestZZDemo . (in a checkout of /repo HEAD with the demo file copied in)' % conf.get('demo_flags', ''),
            'confirmed_by': 'tools/confirm_seed.sh in a scratch worktree of /repo HEAD (removed afterwards)',
            'confirmation': conf,
        }
        json.dump(meta, open(os.path.join(out, 'meta.json'), 'w'), indent=1)
        print('kept', name, '->', out)

if __name__ == '__main__':
    main()
