#!/bin/bash
# lists the property ids registered in the harness (core.Register calls)
grep -ho 'ID: *"C[0-9]*"' "$(dirname "$0")"/../harness/props/*.go | grep -o 'C[0-9]*' | sort -u
