package props

import (
	"context"
	"errors"
	"fmt"
	"math/rand/v2"
	"strings"
	"time"

	bigbuff "github.com/joeycumines/go-bigbuff"

	"verif/core"
)

// C18 — ExponentialRetry: stops on success, fatal error or cancellation; bounded backoff.

func init() {
	core.Register(&core.Property{
		ID: "C18",
		Rule: "lock-step reference loop on scripted outcome sequences: k in 0..8 plain errors followed by every ending {success, fatal error nested 1-3 deep, fatal error whose chain holds a second fatal wrapper under a plain annotation, cancellation before the first call, cancellation inside the call in flight (which then errs / succeeds / fails fatally), cancellation inside the wait} x rates {<=0, 1ns, 1us, 300ms, 2.5s, 4.294967298s = the largest rate whose largest delay fits a Duration} (complete), x context kinds {WithCancel, WithCancelCause with a custom cause, deadline ten minutes ahead that is never reached, child of a context cancelled with a cause, nil context (never cancelled)} (the error to report is ctx.Err(), never the cause, and a far deadline changes nothing), " +
			"each returned function invoked twice in a row (the attempt counter restarts), plus long scripts of 40 plain errors (cap at 31); delays observed through VerifRetryObserve (observers call through to the real calcExponentialRetry / waitDuration; most scenarios skip the real wait = virtual time); " +
			"real-wait family: elapsed heartbeats for tiny delays, prompt return when cancelled during a long wait, and a context with a real 5-35 ms deadline (the function may return only once ctx.Err() is non-nil, with DeadlineExceeded). oracle: number and order of calls, result and error identity (innermost error, not fatal), delay a whole number of slots in [0, 2^c-1] x rate (300ms when rate<=0), wait requested with exactly that delay, no call after cancellation was observed. " +
			"non-trivial = at least one retry (k>=1) happened; distinct = distinct scripts",
		Assumptions: []string{"VerifRetryObserve swaps package-level variables, so scenarios run one at a time in their child process", "the distribution of the random slot is not checked, only its range (max slot per k is reported)"},
		Families: []core.Family{
			{Name: "scripted", N: core.TierN(6, 6), Solo: true, Run: c18Scripted},
			{Name: "random-long", N: core.TierN(60, 2400), Batch: 5, Run: c18RandomLong},
			{Name: "real-wait", N: core.TierN(24, 480), Batch: 4, Run: c18RealWait},
		},
	})
}

var errC18Plain = errors.New("c18 plain error")

// c18MaxRate is the largest rate whose largest delay, (2^31-1) slots, still fits a time.Duration.
const c18MaxRate = time.Duration(4294967298)

// c18MultiErr is a plain (non-fatal) error whose dynamic type is not comparable.
type c18MultiErr []error

func (m c18MultiErr) Error() string { return fmt.Sprintf("%d errors", len(m)) }

var errC18Base = errors.New("c18 fatal base error")

// errC18Layered is a marker for the expectation of the fatal-layered ending (never returned by anything).
var errC18Layered = errors.New("c18 layered marker")

type c18Obs struct {
	rate, d time.Duration
	c       uint32
}

type c18Script struct {
	k       int    // plain errors first
	ending  string // success | fatal1..3 | cancel-before | cancel-in-call-err | cancel-in-call-ok | cancel-in-call-fatal | cancel-in-wait
	rate    time.Duration
	twice   bool
	invoked int
	ctxKind int // 4 = nil context (documented: treated as one that is never cancelled); 0 WithCancel, 1 WithCancelCause (custom cause), 2 WithDeadline ten minutes ahead (never reached), 3 child of a context cancelled with a cause
}

var c18CtxKinds = []string{"cancel", "cancel-cause", "far-deadline", "child-of-cause", "nil-context"}

var errC18Cause = errors.New("c18 custom cancellation cause")

// c18Context builds the context of a script: whatever its kind, it ends only through the returned cancel function, and
// the error the retry function has to report is ctx.Err() (never the cause).
func c18Context(kind int) (context.Context, context.CancelFunc) {
	switch kind {
	case 4:
		return context.Background(), func() {} // (stands in for the nil context inside the script's own bookkeeping)
	case 1:
		ctx, cc := context.WithCancelCause(context.Background())
		return ctx, func() { cc(errC18Cause) }
	case 2:
		return context.WithDeadline(context.Background(), time.Now().Add(10*time.Minute))
	case 3:
		parent, cc := context.WithCancelCause(context.Background())
		ctx, cancel := context.WithCancel(parent)
		return ctx, func() { cc(errC18Cause); cancel() }
	}
	return context.WithCancel(context.Background())
}

func (s c18Script) String() string {
	return fmt.Sprintf("k=%d ending=%s rate=%s ctx=%s", s.k, s.ending, s.rate, c18CtxKinds[s.ctxKind])
}

// rngC18 is a tiny deterministic chooser (the scripts are replayed identically).
func rngC18(n int) *rand.Rand { return newRand(uint64(n)*2654435761 + 17) }

func nestFatal(err error, depth int) error {
	for i := 0; i < depth; i++ {
		err = bigbuff.FatalError(err)
	}
	return err
}

// runC18Script runs one invocation and checks it; returns the max slot seen per k.
func runC18Script(c *core.Ctx, s c18Script, maxSlot map[int]int64) {
	if s.ending == "cancel-in-wait" && s.k == 0 {
		return // no wait to cancel in
	}
	if s.ctxKind == 4 && strings.HasPrefix(s.ending, "cancel") {
		return // a nil context cannot be cancelled
	}
	ctx, cancel := c18Context(s.ctxKind)
	defer cancel()
	if s.ending == "cancel-before" {
		cancel()
	}
	calls := 0
	afterEnd := 0
	ended := false
	resultOf := func(i int) interface{} { return fmt.Sprintf("result-%d", i) }
	op := func() (interface{}, error) {
		calls++
		if ended || ctx.Err() != nil && s.ending != "cancel-in-wait" && calls != s.k+1 {
			afterEnd++
		}
		if calls <= s.k {
			if calls%3 == 2 {
				return resultOf(calls), c18MultiErr{errC18Plain, errC18Base} // plain error of an uncomparable type
			}
			if calls%5 == 1 {
				// the operation's own (per-attempt) context ran out: a plain error like any other, the retry's
				// context is as live as before
				return resultOf(calls), core.Pick(rngC18(calls), error(context.DeadlineExceeded), error(context.Canceled), fmt.Errorf("attempt %d: %w", calls, context.DeadlineExceeded))
			}
			return resultOf(calls), errC18Plain
		}
		ended = true
		switch s.ending {
		case "success":
			return resultOf(calls), nil
		case "fatal1", "fatal2", "fatal3":
			return resultOf(calls), nestFatal(errC18Base, int(s.ending[5]-'0'))
		case "fatal-layered":
			// marked fatal by two layers with a plain annotation in between: the OUTERMOST wrapper is a fatal one
			return resultOf(calls), bigbuff.FatalError(fmt.Errorf("layer: %w", bigbuff.FatalError(errC18Base)))
		case "cancel-in-call-err":
			cancel()
			return resultOf(calls), errC18Plain
		case "cancel-in-call-ok":
			cancel()
			return resultOf(calls), nil
		case "cancel-in-call-fatal":
			cancel()
			return resultOf(calls), nestFatal(errC18Base, 2)
		}
		// cancel-in-wait with calls beyond k: must not happen (the wait observer cancels); stop a runaway loop
		if calls > s.k+3 {
			cancel()
			return resultOf(calls), nil
		}
		return resultOf(calls), errC18Plain
	}
	rctx := ctx
	if s.ctxKind == 4 {
		rctx = nil
	}
	fn := bigbuff.ExponentialRetry(rctx, s.rate, op)
	invocations := 1
	if s.twice {
		invocations = 2
	}
	for inv := 0; inv < invocations; inv++ {
		calls, afterEnd, ended = 0, 0, false
		var calcs, waits []c18Obs
		restore := bigbuff.VerifRetryObserve(
			func(rate time.Duration, cc uint32, d time.Duration) { calcs = append(calcs, c18Obs{rate, d, cc}) },
			func(wctx context.Context, d time.Duration) bool {
				waits = append(waits, c18Obs{d: d})
				if s.ending == "cancel-in-wait" && len(waits) == s.k {
					cancel()
					return false // the real waitDuration must notice the cancelled context
				}
				return true // virtual time
			})
		var res interface{}
		var err error
		done := core.Go(func() { res, err = fn() })
		ok := core.AwaitDone(done, 10000)
		restore()
		desc := fmt.Sprintf("%s invocation=%d", s, inv)
		if !ok {
			c.Violate("retry-blocked", "the retry function did not return; %s", desc)
			c.SetDump(core.DumpAll())
			return
		}
		// expected
		wantCalls := s.k + 1
		wantRetries := s.k
		var wantRes interface{}
		var wantErr error
		switch s.ending {
		case "success", "cancel-in-call-ok":
			wantRes = resultOf(s.k + 1)
		case "fatal1", "fatal2", "fatal3", "cancel-in-call-fatal":
			wantRes, wantErr = resultOf(s.k+1), errC18Base
		case "fatal-layered":
			wantRes, wantErr = resultOf(s.k+1), errC18Layered
		case "cancel-before":
			wantCalls, wantRetries, wantErr = 0, 0, context.Canceled
		case "cancel-in-call-err":
			wantErr = context.Canceled
			wantRetries = s.k + 1 // the delay is still computed and the (cancelled) wait requested
		case "cancel-in-wait":
			wantCalls, wantErr = s.k, context.Canceled
		}
		if inv == 1 && (s.ending == "cancel-before" || s.ending == "cancel-in-call-err" || s.ending == "cancel-in-call-ok" || s.ending == "cancel-in-call-fatal" || s.ending == "cancel-in-wait") {
			// the context stays cancelled: a second invocation returns at once
			wantCalls, wantRetries, wantRes, wantErr = 0, 0, nil, context.Canceled
		}
		if calls != wantCalls {
			c.Violate("call-count", "operation called %d times, want %d; %s", calls, wantCalls, desc)
		}
		if wantErr == errC18Layered {
			// the loop ended with that call (call count, below); which of the inner layers are stripped is not asserted,
			// only that an error of that call is handed back with its result and that it is not a fatal wrapper (below)
			if res != wantRes || err == nil || err == context.Canceled || err == context.DeadlineExceeded {
				c.Violate("result", "returned (%v, %v), want (%v, the error that call produced without its outer fatal wrapper); %s", res, err, wantRes, desc)
			}
		} else if res != wantRes || err != wantErr {
			c.Violate("result", "returned (%v, %v), want (%v, %v); %s", res, err, wantRes, wantErr, desc)
		}
		if err != nil && bigbuff.VerifIsFatal(err) {
			c.Violate("fatal-not-unwrapped", "the returned error is still wrapped by FatalError; %s", desc)
		}
		if s.ending == "cancel-in-call-err" && inv == 0 && len(calcs) == s.k && len(waits) == s.k {
			// the call in flight failed with the context already cancelled: whether a last delay is still drawn
			// (and a wait that returns at once requested) before the cancellation is noticed is not part of the statement
		} else if len(calcs) != wantRetries || len(waits) != wantRetries {
			c.Violate("retry-count", "%d delays computed and %d waits requested, want %d; %s", len(calcs), len(waits), wantRetries, desc)
		}
		rate := s.rate
		if rate <= 0 {
			rate = 300 * time.Millisecond
		}
		for i, o := range calcs {
			k := i + 1
			wc := uint32(k)
			if wc > 31 {
				wc = 31
			}
			_ = o.c
			// (the attempt counter and the rate handed to the internal calculation are not asserted: only the
			// resulting delay is part of the statement)
			if o.d < 0 || o.d%rate != 0 || int64(o.d/rate) > (int64(1)<<wc)-1 {
				c.Violate("delay-range", "delay before retry %d is %s = %d slots of %s, want 0..%d slots; %s", k, o.d, int64(o.d/rate), rate, (int64(1)<<wc)-1, desc)
			}
			if i < len(waits) && waits[i].d != o.d {
				c.Violate("wait-mismatch", "retry %d computed delay %s but waited %s; %s", k, o.d, waits[i].d, desc)
			}
			if sl := int64(o.d / rate); sl > maxSlot[k] {
				maxSlot[k] = sl
			}
		}
	}
}

func c18Scripted(c *core.Ctx) {
	rates := []time.Duration{-5, time.Nanosecond, time.Microsecond, 300 * time.Millisecond, 2500 * time.Millisecond, c18MaxRate}
	rate := rates[c.Index]
	endings := []string{"success", "fatal1", "fatal2", "fatal3", "fatal-layered", "cancel-before", "cancel-in-call-err", "cancel-in-call-ok", "cancel-in-call-fatal", "cancel-in-wait"}
	maxSlot := map[int]int64{}
	n := 0
	for k := 0; k <= 8; k++ {
		for _, e := range endings {
			for _, twice := range []bool{false, true} {
				for rep := 0; rep < 5; rep++ {
					runC18Script(c, c18Script{k: k, ending: e, rate: rate, twice: twice, ctxKind: rep % len(c18CtxKinds)}, maxSlot)
					n++
				}
			}
		}
	}
	c.Op("script", n)
	c.ExhaustiveFamily("k<=8 plain errors x 10 endings x {once,twice} (x5 repetitions) per rate", n)
	c.Count("max_slot_k1", int(maxSlot[1]))
	c.Count("max_slot_k3", int(maxSlot[3]))
	c.Nontrivial()
	c.Sig("scripted", rate)
	c.SetHistory(fmt.Sprintf("rate=%s scripts=%d max slot seen per k: %v", rate, n, maxSlot))
}

func c18RandomLong(c *core.Ctx) {
	maxSlot := map[int]int64{}
	n := 0
	for i := 0; i < 20; i++ {
		s := c18Script{
			k:       9 + c.Rng.IntN(40),
			ending:  core.Pick(c.Rng, "success", "fatal2", "cancel-in-call-err", "cancel-in-wait", "cancel-in-call-ok"),
			rate:    core.Pick(c.Rng, time.Duration(0), time.Nanosecond, 7*time.Nanosecond, time.Microsecond, 300*time.Millisecond, 2200*time.Millisecond, 3*time.Second+1, 1500000001*time.Nanosecond, 333333333*time.Nanosecond, c18MaxRate),
			twice:   c.Rng.IntN(2) == 0,
			ctxKind: c.Rng.IntN(len(c18CtxKinds)),
		}
		runC18Script(c, s, maxSlot)
		n++
	}
	c.Op("script", n)
	c.Count("max_slot_k31plus", int(maxSlot[35]))
	c.Nontrivial()
	c.Sig("long", c.Index)
}

// c18RealWait: the real waitDuration: a tiny delay elapses, a long delay is cut short by cancellation.
func c18RealWait(c *core.Ctx) {
	ctx, cancel := context.WithCancel(context.Background())
	defer cancel()
	mode := core.Pick(c.Rng, "cancel-during-long-wait", "tiny-wait-elapses", "deadline-expires-during-wait")
	if mode == "deadline-expires-during-wait" {
		// a context that carries a (real, short) deadline: the loop has to go on until the context IS cancelled
		cancel()
		ctx, cancel = context.WithTimeout(context.Background(), time.Duration(5+c.Rng.IntN(30))*time.Millisecond)
		defer cancel()
	}
	calls := 0
	rate := 300 * time.Millisecond
	if mode == "tiny-wait-elapses" {
		rate = time.Microsecond
	}
	rctx := ctx
	if mode == "tiny-wait-elapses" && c.Rng.IntN(2) == 0 {
		rctx = nil // documented: a nil context is one that is never cancelled (the real waits run with it)
	}
	fn := bigbuff.ExponentialRetry(rctx, rate, func() (interface{}, error) {
		calls++
		if mode == "tiny-wait-elapses" && calls == 4 {
			return "ok", nil
		}
		return nil, errC18Plain
	})
	var longWaits int
	restore := bigbuff.VerifRetryObserve(nil, func(wctx context.Context, d time.Duration) bool {
		if mode == "cancel-during-long-wait" && d >= 300*time.Millisecond {
			longWaits++
			time.AfterFunc(time.Duration(100+c.Rng.IntN(900))*time.Microsecond, cancel)
		}
		return false // real wait
	})
	var res interface{}
	var err, ctxErrAtReturn error
	done := core.Go(func() { res, err = fn(); ctxErrAtReturn = ctx.Err() })
	ok := core.AwaitDone(done, 20000)
	restore()
	if !ok {
		c.Violate("wait-not-cut-short", "the retry function did not return although its context was cancelled during the wait (%s)", mode)
		c.SetDump(core.DumpAll())
		cancel()
		return
	}
	if mode == "tiny-wait-elapses" {
		if res != "ok" || err != nil || calls != 4 {
			c.Violate("result", "returned (%v, %v) after %d calls, want (ok, nil) after 4", res, err, calls)
		}
	} else if mode == "deadline-expires-during-wait" {
		if ctxErrAtReturn == nil {
			c.Violate("returned-before-cancellation", "returned (%v, %v) after %d failing calls while the context was not cancelled yet (its deadline had not passed)", res, err, calls)
		} else if err != context.DeadlineExceeded || res != nil {
			c.Violate("result", "returned (%v, %v), want (nil, context deadline exceeded)", res, err)
		}
	} else {
		if err != context.Canceled || res != nil {
			c.Violate("result", "returned (%v, %v), want (nil, context canceled)", res, err)
		}
	}
	c.Op("script", 1)
	if mode == "tiny-wait-elapses" || mode == "deadline-expires-during-wait" && calls > 0 || longWaits > 0 {
		c.Nontrivial()
	}
	c.Sig(mode, calls)
}
