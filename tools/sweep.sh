#!/bin/bash
# Dev tool: run every check at several seeds on the unchanged tree; prints one line per run and a summary.
# usage: tools/sweep.sh <tier> <seed list> [prop list]
TIER=${1:-quick}; SEEDS=${2:-"1 2 3 4 5"}; PROPS=${3:-"C01 C02 C03 C04 C05 C06 C07 C08 C09 C10 C11 C12 C13 C14 C15 C16 C17 C18 C19 C20"}
V=$(cd "$(dirname "$0")/.." && pwd)
bad=0
for s in $SEEDS; do for p in $PROPS; do
  out=$(VERIF_SEED=$s "$V/check" $p $TIER -no-evidence 2>&1); rc=$?
  line=$(echo "$out" | grep -E "^$p $TIER seed=" | tail -1)
  echo "rc=$rc $line"
  if [ $rc -ne 0 ]; then bad=$((bad+1)); echo "$out" | grep -E "violation \[|HARNESS-ERROR|VIOLATION" | head -5; fi
done; done
echo "SWEEP DONE tier=$TIER seeds=[$SEEDS] non-zero exits: $bad"
