package props

import (
	"errors"
	"fmt"
	"sync"
	"sync/atomic"
	"time"

	bigbuff "github.com/joeycumines/go-bigbuff"

	"verif/core"
)

// C14 — Workers: exactly-once execution, bounded concurrency, no starvation.

func init() {
	core.Register(&core.Property{
		ID: "C14",
		Rule: "2-40 callers on one Workers with count sequences constant / increasing / decreasing-while-queued / alternating 1<->N / random, functions that return at once, sleep, or block on a gate (so the queue is provably non-empty when the target shrinks), Call and Wrap, concurrent Wait calls, seeded delays at workers.* hook sites; " +
			"oracle: each function runs exactly once and its caller gets exactly its (result, error); running <= largest count requested so far (published before Call, read inside the function after incrementing running); every Call returns within the bound; " +
			"a Wait never spans a function that ran for its whole duration; VerifState invariant queued>0 => count>0 sampled continuously; count=queued=0 and Count()==0 after the final Wait. " +
			"shared-wrapper: ONE function wrapped once with Wrap and invoked concurrently from several goroutines; every execution returns a fresh token: each invocation gets a token nobody else got, from an execution that began after the invocation was made and ended before it returned. rejected-call: documented-to-panic calls (count<=0, nil function; Call and Wrap) recovered on a pool with executing and queued functions: no effect on the others. non-trivial = at least two functions were running at once or the queue was non-empty when a smaller count arrived; distinct = distinct (mode, callers, max parallelism, shrink events) signatures",
		Assumptions: []string{
			"'eventually executed' is restated as 'every Call returns within 10000 heartbeats once the gates are open'",
		},
		Families: []core.Family{
			{Name: "mixed", N: core.TierN(600, 32000), Batch: 20, Run: c14Mixed},
			{Name: "shrink-gated", N: core.TierN(300, 16000), Batch: 20, Run: c14Shrink},
			{Name: "sustained-arrivals", N: core.TierN(12, 120), Batch: 4, Run: c14Sustained},
			{Name: "micro-churn", N: core.TierN(64, 2560), Batch: 4, Run: c14Churn},
			{Name: "rejected-call", N: core.TierN(60, 2400), Batch: 20, Run: c14Rejected},
			{Name: "shared-wrapper", N: core.TierN(40, 1600), Batch: 10, Run: c14SharedWrapper},
		},
	})
}

type c14Run struct {
	c          *core.Ctx
	w          *bigbuff.Workers
	running    atomic.Int64
	maxReq     atomic.Int64
	maxRunning atomic.Int64
	execs      []atomic.Int32
	starts     []atomic.Int64
	ends       []atomic.Int64
	mu         sync.Mutex
	problems   []string
	keys       []string
}

func (r *c14Run) problem(key, format string, args ...any) {
	r.mu.Lock()
	if len(r.problems) < 20 {
		r.problems = append(r.problems, fmt.Sprintf(format, args...))
		r.keys = append(r.keys, key)
	}
	r.mu.Unlock()
}

func (r *c14Run) publish(count int) {
	for {
		cur := r.maxReq.Load()
		if int64(count) <= cur || r.maxReq.CompareAndSwap(cur, int64(count)) {
			return
		}
	}
}

// fn builds the function for call id.
func (r *c14Run) fn(id int, body func()) func() (interface{}, error) {
	return func() (interface{}, error) {
		r.starts[id].Store(core.Now())
		n := r.running.Add(1)
		if r.execs[id].Add(1) != 1 {
			r.problem("executed-twice", "function %d executed more than once", id)
		}
		if max := r.maxReq.Load(); n > max {
			r.problem("concurrency-exceeded", "%d functions running at once but the largest count requested so far is %d", n, max)
		}
		for {
			m := r.maxRunning.Load()
			if n <= m || r.maxRunning.CompareAndSwap(m, n) {
				break
			}
		}
		if body != nil {
			body()
		}
		r.running.Add(-1)
		r.ends[id].Store(core.Now())
		if id%3 == 0 {
			return id, c14Err(id)
		}
		return id, nil
	}
}

type c14Error struct{ id int }

func (e c14Error) Error() string { return fmt.Sprintf("c14 error %d", e.id) }
func c14Err(id int) error        { return c14Error{id} }

func (r *c14Run) check(id int, v interface{}, err error) {
	if v != id {
		r.problem("wrong-result", "call %d returned result %v", id, v)
	}
	var want error
	if id%3 == 0 {
		want = c14Err(id)
	}
	if !errors.Is(err, want) && !(want == nil && err == nil) {
		r.problem("wrong-error", "call %d returned error %v, want %v", id, err, want)
	}
	if want != nil && err != want {
		r.problem("wrong-error", "call %d returned error %v, want %v", id, err, want)
	}
}

// c14State reads the pool's internal state for a diagnostic message, without ever blocking the caller: with a pool
// whose mutex is stuck the accessor itself would hang.
func c14State(w *bigbuff.Workers) string {
	var count, target, queued int
	if !core.AwaitDone(core.Go(func() { count, target, queued = w.VerifState() }), 500) {
		return "state unavailable: the pool's mutex is held"
	}
	return fmt.Sprintf("count=%d target=%d queued=%d", count, target, queued)
}

// c14Wait calls Wait under a bound: once every Call has returned and nothing is queued, Wait returns.
func c14Wait(c *core.Ctx, w *bigbuff.Workers, desc string) bool {
	if !core.AwaitDone(core.Go(w.Wait), 10000) {
		c.Violate("wait-blocked", "every Call has returned and nothing is queued, but Wait does not return (%s); %s", c14State(w), desc)
		c.SetDump(core.DumpAll())
		return false
	}
	return true
}

func newC14Run(c *core.Ctx, n int) *c14Run {
	return &c14Run{c: c, w: new(bigbuff.Workers), execs: make([]atomic.Int32, n), starts: make([]atomic.Int64, n), ends: make([]atomic.Int64, n)}
}

// sampler polls the VerifState invariant until stop is closed.
func (r *c14Run) sampler(stop <-chan struct{}) <-chan struct{} {
	return core.Go(func() {
		for {
			select {
			case <-stop:
				return
			default:
			}
			count, target, queued := r.w.VerifState()
			if queued > 0 && count == 0 {
				r.problem("queued-without-worker", "queue holds %d functions but no worker exists (target %d)", queued, target)
				return
			}
			time.Sleep(20 * time.Microsecond)
		}
	})
}

func (r *c14Run) finish(desc string) {
	c := r.c
	for i, p := range r.problems {
		c.Violate(r.keys[i], "%s; %s", p, desc)
	}
}

var workerSites = []string{"workers.call.queued", "workers.worker.top", "workers.worker.taken"}

func c14Mixed(c *core.Ctx) {
	n := 2 + c.Rng.IntN(39)
	N := 1 + c.Rng.IntN(8)
	mode := core.Pick(c.Rng, "constant", "increasing", "decreasing", "alternating", "random")
	r := newC14Run(c, n)
	p := c.RandomPerturb(workerSites)
	defer p.Stop()
	counts := make([]int, n)
	for i := range counts {
		switch mode {
		case "constant":
			counts[i] = N
		case "increasing":
			counts[i] = 1 + i*N/n
		case "decreasing":
			counts[i] = N - i*N/n
			if counts[i] < 1 {
				counts[i] = 1
			}
		case "alternating":
			counts[i] = 1
			if i%2 == 0 {
				counts[i] = N
			}
		default:
			counts[i] = 1 + c.Rng.IntN(N)
		}
	}
	stop := make(chan struct{})
	sampled := r.sampler(stop)
	type waitRec struct{ call, ret int64 }
	var waits []waitRec
	var wmu sync.Mutex
	var wg sync.WaitGroup
	sequentialStart := c.Rng.IntN(2) == 0
	for i := 0; i < n; i++ {
		i := i
		var body func()
		switch c.Rng.IntN(4) {
		case 0:
			d := time.Duration(c.Rng.IntN(300)) * time.Microsecond
			body = func() { time.Sleep(d) }
		case 1:
			k := c.Rng.IntN(50)
			body = func() { spin(k) }
		}
		useWrap := c.Rng.IntN(4) == 0
		wg.Add(1)
		launch := func() {
			defer wg.Done()
			r.publish(counts[i])
			var v interface{}
			var err error
			if useWrap {
				v, err = r.w.Wrap(counts[i], r.fn(i, body))()
			} else {
				v, err = r.w.Call(counts[i], r.fn(i, body))
			}
			r.check(i, v, err)
		}
		go launch()
		if sequentialStart {
			time.Sleep(time.Duration(c.Rng.IntN(60)) * time.Microsecond)
		}
		if c.Rng.IntN(10) == 0 {
			wg.Add(1)
			go func() {
				defer wg.Done()
				call := core.Now()
				r.w.Wait()
				ret := core.Now()
				wmu.Lock()
				waits = append(waits, waitRec{call, ret})
				wmu.Unlock()
			}()
		}
	}
	desc := fmt.Sprintf("mode=%s callers=%d N=%d counts=%v", mode, n, N, counts)
	if !core.AwaitDone(core.Go(wg.Wait), 10000) {
		c.Violate("call-starved", "not every Call/Wait returned (%s); %s", c14State(r.w), desc)
		c.SetDump(core.DumpAll())
		close(stop)
		return
	}
	if !c14Wait(c, r.w, desc) {
		return
	}
	close(stop)
	<-sampled
	if cnt := r.w.Count(); cnt != 0 {
		c.Violate("count-after-wait", "Count()=%d after Wait; %s", cnt, desc)
	}
	if count, _, queued := r.w.VerifState(); count != 0 || queued != 0 {
		c.Violate("state-after-wait", "count=%d queued=%d after Wait; %s", count, queued, desc)
	}
	for i := range r.execs {
		if r.execs[i].Load() != 1 {
			c.Violate("execution-count", "function %d executed %d times; %s", i, r.execs[i].Load(), desc)
		}
	}
	for _, w := range waits {
		for i := range r.starts {
			if s, e := r.starts[i].Load(), r.ends[i].Load(); s != 0 && s < w.call && e > w.ret {
				c.Violate("wait-returned-while-running", "a Wait [%d,%d] returned although function %d was running for its whole duration [%d,%d]; %s", w.call, w.ret, i, s, e, desc)
			}
		}
	}
	r.finish(desc)
	c.Op("call", n)
	c.Op("wait", len(waits)+1)
	c.Count("max_running", int(r.maxRunning.Load()))
	if r.maxRunning.Load() >= 2 {
		c.Nontrivial()
	}
	c.Param("mode", mode)
	c.Sig(mode, n, N, r.maxRunning.Load())
	if c.Index < 2 {
		c.SetHistory(desc + fmt.Sprintf(" max_running=%d", r.maxRunning.Load()))
	}
}

// c14Shrink: K functions block on a gate with count K, more calls queue behind them, then callers arrive with a
// smaller count while the queue is provably non-empty; the gate opens (all at once or one by one): nothing may starve.
func c14Shrink(c *core.Ctx) {
	K := 2 + c.Rng.IntN(5)
	queuedBig := c.Rng.IntN(4)
	small := 1 + c.Rng.IntN(K-1)
	nSmall := 1 + c.Rng.IntN(4)
	n := K + queuedBig + nSmall
	r := newC14Run(c, n)
	p := c.RandomPerturb(workerSites)
	defer p.Stop()
	stop := make(chan struct{})
	sampled := r.sampler(stop)
	gate := make(chan struct{})
	var entered atomic.Int64
	var wg sync.WaitGroup
	call := func(id, count int, body func()) {
		wg.Add(1)
		go func() {
			defer wg.Done()
			r.publish(count)
			v, err := r.w.Call(count, r.fn(id, body))
			r.check(id, v, err)
		}()
	}
	id := 0
	for i := 0; i < K; i++ {
		call(id, K, func() { entered.Add(1); <-gate })
		id++
	}
	if !core.WaitUntil(5000, func() bool { return entered.Load() == int64(K) }) {
		c.Violate("call-starved", "only %d of %d gated functions started with count %d", entered.Load(), K, K)
		close(gate)
		close(stop)
		return
	}
	for i := 0; i < queuedBig; i++ {
		call(id, K, nil)
		id++
	}
	for i := 0; i < nSmall; i++ {
		call(id, small, nil)
		id++
	}
	// all workers are busy: the later calls are queued
	core.WaitUntil(5000, func() bool { _, _, q := r.w.VerifState(); return q == queuedBig+nSmall })
	_, _, q := r.w.VerifState()
	shrunkWhileQueued := q > 0
	release := core.Pick(c.Rng, "all-at-once", "one-by-one")
	if release == "all-at-once" {
		close(gate)
	} else {
		for i := 0; i < K; i++ {
			gate <- struct{}{}
			if c.Rng.IntN(2) == 0 {
				time.Sleep(time.Duration(c.Rng.IntN(100)) * time.Microsecond)
			}
		}
		close(gate)
	}
	desc := fmt.Sprintf("K=%d queued_with_K=%d then %d calls with count %d, release=%s, queue_when_shrunk=%d", K, queuedBig, nSmall, small, release, q)
	if !core.AwaitDone(core.Go(wg.Wait), 10000) {
		c.Violate("call-starved", "queued calls never ran (%s); %s", c14State(r.w), desc)
		c.SetDump(core.DumpAll())
		close(stop)
		return
	}
	if !c14Wait(c, r.w, desc) {
		return
	}
	close(stop)
	<-sampled
	if cnt := r.w.Count(); cnt != 0 {
		c.Violate("count-after-wait", "Count()=%d after Wait; %s", cnt, desc)
	}
	for i := range r.execs {
		if r.execs[i].Load() != 1 {
			c.Violate("execution-count", "function %d executed %d times; %s", i, r.execs[i].Load(), desc)
		}
	}
	r.finish(desc)
	c.Op("call", n)
	c.Count("max_running", int(r.maxRunning.Load()))
	if shrunkWhileQueued {
		c.Nontrivial()
	}
	c.Sig("shrink", K, queuedBig, small, nSmall, release)
	if c.Index < 1 {
		c.SetHistory(desc)
	}
}

// c14Churn: thousands of tiny bursts on fresh pools — a handful of staggered concurrent Calls with short functions and
// mixed counts, so that workers are being spawned, going idle and exiting while calls arrive. Windows of a few
// instructions (a worker's idle-exit check racing a Call) are reached by repetition, not by a hook.
func c14Churn(c *core.Ctx) {
	iters := 1500
	if c.Thorough() {
		iters = 4000
	}
	overlapped := 0
	for it := 0; it < iters && !c.Violated(); it++ {
		k := 2 + c.Rng.IntN(4)
		r := newC14Run(c, k)
		var wg sync.WaitGroup
		counts := make([]int, k)
		for i := 0; i < k; i++ {
			counts[i] = 1 + c.Rng.IntN(3)
			i := i
			var body func()
			if c.Rng.IntN(3) == 0 {
				n := c.Rng.IntN(20)
				body = func() { spin(n) }
			}
			wg.Add(1)
			go func() {
				defer wg.Done()
				r.publish(counts[i])
				v, err := r.w.Call(counts[i], r.fn(i, body))
				r.check(i, v, err)
			}()
			if c.Rng.IntN(2) == 0 {
				spin(c.Rng.IntN(30))
			}
		}
		done := make(chan struct{})
		go func() { wg.Wait(); close(done) }()
		select {
		case <-done:
		case <-time.After(50 * time.Millisecond):
			// slow path: decide with heartbeats, not wall-clock
			if !core.AwaitDone(done, 10000) {
				c.Violate("call-starved", "iteration %d: a Call never returned (%s, counts=%v)", it, c14State(r.w), counts)
				c.SetDump(core.DumpAll())
				return
			}
		}
		if !core.AwaitDone(core.Go(r.w.Wait), 10000) {
			c.Violate("wait-blocked", "iteration %d: every Call has returned and nothing is queued, but Wait does not return (%s)", it, c14State(r.w))
			c.SetDump(core.DumpAll())
			return
		}
		if cnt := r.w.Count(); cnt != 0 {
			c.Violate("count-after-wait", "iteration %d: Count()=%d after Wait", it, cnt)
		}
		for i := range r.execs {
			if r.execs[i].Load() != 1 {
				c.Violate("execution-count", "iteration %d: function %d executed %d times", it, i, r.execs[i].Load())
			}
		}
		r.finish(fmt.Sprintf("iteration %d counts=%v", it, counts))
		if r.maxRunning.Load() >= 2 {
			overlapped++
		}
		c.Op("call", k)
	}
	c.Count("iterations", iters)
	c.Count("iterations_with_parallel_functions", overlapped)
	if overlapped > 0 {
		c.Nontrivial()
	}
	c.Sig("churn", c.Index, overlapped > 0)
}

// c14Sustained: the pool is saturated, one call (the victim) is queued, and closed-loop feeders keep the queue from
// ever draining. "Eventually executed" is restated as bounded bypass: the victim must have started before the feeders,
// which all queued after it, have completed 2000 calls (a FIFO queue lets at most the queue length pass).
func c14Sustained(c *core.Ctx) {
	count := 1 + c.Rng.IntN(3)
	feeders := 4 + c.Rng.IntN(8)
	w := new(bigbuff.Workers)
	p := c.NewPerturb(core.PerturbOpts{P: core.Pick(c.Rng, 0, 0.02)})
	defer p.Stop()
	gate := make(chan struct{})
	var entered, victimRan, completed atomic.Int64
	var stop atomic.Bool
	var wg sync.WaitGroup
	for i := 0; i < count; i++ { // saturate the pool
		wg.Add(1)
		go func() {
			defer wg.Done()
			w.Call(count, func() (interface{}, error) { entered.Add(1); <-gate; return nil, nil })
		}()
	}
	if !core.WaitUntil(5000, func() bool { return entered.Load() == int64(count) }) {
		c.Violate("call-starved", "the first %d calls with count %d did not all start", count, count)
		close(gate)
		return
	}
	wg.Add(1)
	go func() { // the victim: queued first
		defer wg.Done()
		w.Call(count, func() (interface{}, error) { victimRan.Store(completed.Load() + 1); return nil, nil })
	}()
	core.WaitUntil(5000, func() bool { _, _, q := w.VerifState(); return q >= 1 })
	for f := 0; f < feeders; f++ { // closed-loop feeders: each queues its next call as soon as the previous returned
		wg.Add(1)
		go func() {
			defer wg.Done()
			for !stop.Load() {
				// (the function takes a little while, so that the feeders re-queue faster than the pool drains)
				w.Call(count, func() (interface{}, error) { time.Sleep(20 * time.Microsecond); completed.Add(1); return nil, nil })
			}
		}()
	}
	core.WaitUntil(5000, func() bool { _, _, q := w.VerifState(); return q >= feeders/2+1 })
	close(gate)
	const limit = 2000
	core.WaitUntil(20000, func() bool { return victimRan.Load() != 0 || completed.Load() >= limit })
	ran := victimRan.Load()
	done := completed.Load()
	stop.Store(true)
	if !core.AwaitDone(core.Go(wg.Wait), 10000) {
		c.Violate("call-starved", "calls did not return after the feeders stopped (victim ran: %v)", ran != 0)
		c.SetDump(core.DumpAll())
		return
	}
	if ran == 0 || ran > limit {
		c.Violate("queued-call-bypassed", "a call queued before %d feeders started had not run when %d later-queued calls had completed (count=%d)", feeders, done, count)
	}
	c.Op("call", int(done)+count+1)
	c.Count("later_calls_completed_before_victim", int(ran))
	c.Nontrivial()
	c.Sig("sustained", count, feeders)
}

// c14Rejected: calls that the documentation says panic (count <= 0, nil function; Call and Wrap) are made, and
// recovered, on a pool that is in use: gated functions are executing and further calls are queued. A rejected call
// has no effect: everything made before and after it is executed exactly once and returns, Wait returns, Count is 0.
func c14Rejected(c *core.Ctx) {
	n := 1 + c.Rng.IntN(3)
	before, after := 2+c.Rng.IntN(4), c.Rng.IntN(4) // (after == 0: nothing follows the rejected call that could revive the pool)
	r := newC14Run(c, before+after)
	gate := make(chan struct{})
	var wg sync.WaitGroup
	call := func(i int, body func()) {
		wg.Add(1)
		go func() {
			defer wg.Done()
			r.publish(n)
			v, err := r.w.Call(n, r.fn(i, body))
			r.check(i, v, err)
		}()
	}
	for i := 0; i < before; i++ {
		call(i, func() { <-gate })
	}
	core.WaitUntil(3000, func() bool { return int(r.running.Load()) == min(n, before) })
	rejected := 0
	for _, kind := range []string{"count-zero", "count-negative", "nil-function", "wrap-count-zero", "wrap-nil-function"} {
		if c.Rng.IntN(2) == 0 && rejected > 0 {
			continue
		}
		rejected++
		var pv any
		ret := core.AwaitDone(core.Go(func() {
			pv = core.Recover(func() {
				switch kind {
				case "count-zero":
					r.w.Call(0, func() (interface{}, error) { return nil, nil })
				case "count-negative":
					r.w.Call(-1-c.Rng.IntN(5), func() (interface{}, error) { return nil, nil })
				case "nil-function":
					r.w.Call(n, nil)
				case "wrap-count-zero":
					r.w.Wrap(0, func() (interface{}, error) { return nil, nil })
				default:
					r.w.Wrap(n, nil)
				}
			})
		}), 3000)
		// (whether the invalid call panics, returns or blocks is the documentation's business, not the statement's:
		// only its effect on the valid calls is judged)
		_, _ = ret, pv
	}
	for i := 0; i < after; i++ {
		call(before+i, nil)
	}
	time.Sleep(time.Duration(c.Rng.IntN(200)) * time.Microsecond)
	close(gate)
	desc := fmt.Sprintf("N=%d, %d gated calls, %d rejected calls, %d later calls", n, before, rejected, after)
	if !core.AwaitDone(core.Go(wg.Wait), 10000) {
		c.Violate("call-starved", "valid calls made before/after a rejected (panicking, recovered) call never returned (%s); %s", c14State(r.w), desc)
		c.SetDump(core.DumpAll())
		return
	}
	if !core.AwaitDone(core.Go(r.w.Wait), 10000) {
		c.Violate("wait-blocked", "Wait did not return after every call had returned; %s", desc)
		c.SetDump(core.DumpAll())
		return
	}
	if cnt := r.w.Count(); cnt != 0 {
		c.Violate("count-after-wait", "Count()=%d after Wait; %s", cnt, desc)
	}
	for i := range r.execs {
		if r.execs[i].Load() != 1 {
			c.Violate("execution-count", "function %d executed %d times; %s", i, r.execs[i].Load(), desc)
		}
	}
	r.finish(desc)
	c.Op("call", before+after)
	c.Op("rejected", rejected)
	c.Nontrivial()
	c.Sig("rejected", n, before, after, rejected)
}

// c14SharedWrapper: a wrapper made once by Wrap is an ordinary function value: it may be invoked from several
// goroutines at once. Each invocation is a Call of its own: it returns the result of exactly one execution, which
// began after the invocation was made and had ended when it returned, and no two invocations share an execution.
func c14SharedWrapper(c *core.Ctx) {
	var w bigbuff.Workers
	n := 1 + c.Rng.IntN(4)
	g := 2 + c.Rng.IntN(5)
	per := 3 + c.Rng.IntN(10)
	total := g * per
	var next atomic.Int64
	starts := make([]atomic.Int64, total+1)
	ends := make([]atomic.Int64, total+1)
	durs := make([]int, total+1)
	for i := range durs {
		durs[i] = c.Rng.IntN(300)
	}
	wrapped := w.Wrap(n, func() (interface{}, error) {
		id := int(next.Add(1))
		if id > total {
			return id, nil
		}
		starts[id].Store(core.Now())
		time.Sleep(time.Duration(durs[id]) * time.Microsecond) // completions out of order
		ends[id].Store(core.Now())
		return id, nil
	})
	type inv struct {
		call, ret int64
		got       int
		err       error
	}
	invs := make([][]inv, g)
	var wg sync.WaitGroup
	for i := 0; i < g; i++ {
		i := i
		wg.Add(1)
		go func() {
			defer wg.Done()
			for j := 0; j < per; j++ {
				var x inv
				x.call = core.Now()
				v, err := wrapped()
				x.ret = core.Now()
				x.got, _ = v.(int)
				x.err = err
				invs[i] = append(invs[i], x)
			}
		}()
	}
	desc := fmt.Sprintf("one Wrap(%d, f) wrapper invoked %d times each by %d goroutines", n, per, g)
	if !core.AwaitDone(core.Go(wg.Wait), 20000) {
		c.Violate("call-starved", "invocations of a shared wrapper did not all return (%s); %s", c14State(&w), desc)
		c.SetDump(core.DumpAll())
		return
	}
	seen := map[int]bool{}
	for i := range invs {
		for _, x := range invs[i] {
			switch {
			case x.err != nil || x.got < 1 || x.got > total:
				c.Violate("wrong-result", "an invocation returned (%d, %v), which no execution produced; %s", x.got, x.err, desc)
			case seen[x.got]:
				c.Violate("result-shared", "two invocations returned the result of the same execution (#%d); %s", x.got, desc)
			case starts[x.got].Load() < x.call:
				c.Violate("foreign-result", "an invocation made at stamp %d returned the result of execution #%d, which had begun before (stamp %d); %s", x.call, x.got, starts[x.got].Load(), desc)
			case ends[x.got].Load() == 0 || ends[x.got].Load() > x.ret:
				c.Violate("foreign-result", "an invocation returned (stamp %d) the result of execution #%d before that execution had ended (stamp %d): it is somebody else's; %s", x.ret, x.got, ends[x.got].Load(), desc)
			}
			seen[x.got] = true
		}
	}
	if int(next.Load()) != total {
		c.Violate("execution-count", "%d invocations, %d executions; %s", total, next.Load(), desc)
	}
	if !c14Wait(c, &w, desc) {
		return
	}
	c.Op("call", total)
	c.Nontrivial()
	c.Sig("shared-wrapper", n, g, per)
}
