module verif

go 1.23.4

require (
	github.com/anishathalye/porcupine v1.3.0
	github.com/joeycumines/go-bigbuff v0.0.0
)

replace github.com/joeycumines/go-bigbuff => /repo
