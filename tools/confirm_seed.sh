#!/bin/bash
# Dev tool: confirm a seeded change in a scratch worktree of /repo HEAD:
#   demo passes without the patch, patch applies and builds (with and without -tags verif),
#   the stable baseline still passes with it, demo fails with it.
# usage: tools/confirm_seed.sh <seed dir with patch.diff + zz_demo_*_test.go>   -> prints a JSON object
set -u
export GOFLAGS=-mod=mod GOPROXY=off GOSUMDB=off GOTOOLCHAIN=local
V=$(cd "$(dirname "$0")/.." && pwd)
S=$(realpath "$1")
W=$(mktemp -d /tmp/seedwt-XXXXXX)
rmdir "$W"
git -C /repo worktree add -q --detach "$W" HEAD || exit 2
trap 'git -C /repo worktree remove --force "$W" >/dev/null 2>&1; rm -rf "$W"' EXIT
demo=$(ls "$S"/zz_demo_*_test.go | head -1)
cp "$demo" "$W/"
flags=""
grep -q '^//go:build verif' "$demo" && flags="$flags -tags verif"
grep -q '^//go:build race' "$demo" && flags="$flags -race"
[ -f "$S/demo_flags" ] && flags="$flags $(cat "$S/demo_flags")"
run_demo() { (cd "$W" && timeout 600 go test -vet=off $flags -count=1 -run 'TestZZDemo' . >"$W/demo.out" 2>&1); echo $?; }
clean=$(run_demo)
(cd "$W" && git apply "$S/patch.diff") || { echo '{"error":"patch does not apply"}'; exit 1; }
(cd "$W" && go build ./... && go build -tags verif ./... && go vet . ) >"$W/build.out" 2>&1; build=$?
base=$("$V/tools/baseline.sh" "$W" | tail -1)
echo "$base" | grep -q 'not_passing=0' || base=$("$V/tools/baseline.sh" "$W" | tail -1)   # timing flakes: one re-run
mut=$(run_demo)
msg=$(grep -m1 -E '^\s+\S+_test.go:[0-9]+:|panic:|WARNING: DATA RACE|FAIL' "$W/demo.out" | head -c 300 | tr '"\n' "' ")
printf '{"demo_flags":"%s","demo_exit_without_patch":%s,"build_exit_with_patch":%s,"baseline_with_patch":"%s","demo_exit_with_patch":%s,"demo_failure":"%s"}\n' "$flags" "$clean" "$build" "$base" "$mut" "$msg"
