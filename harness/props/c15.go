package props

import (
	"context"
	"errors"
	"fmt"
	"reflect"
	"sync"
	"sync/atomic"
	"time"

	bigbuff "github.com/joeycumines/go-bigbuff"

	"verif/core"
)

// C15 — Notifier: a publish reaches each eligible subscription exactly once, no one else.

type c15T struct{ n int }

// named types with an unnamed counterpart: assignable both ways although the types differ
type c15Ints []int
type c15Fn func()

var c15Err = errors.New("c15 error value")
var c15Ptr = &c15T{7}

// c15Target is one subscription's channel with a uniform way to receive from it.
type c15Target struct {
	target interface{}   // what is handed to the Notifier
	elem   reflect.Type  // element type
	recv   reflect.Value // bidirectional channel to receive from
	cap    int
	desc   string
}

func c15MakeTarget(kind, capacity int) *c15Target {
	mk := func(ch interface{}, target interface{}, desc string) *c15Target {
		v := reflect.ValueOf(ch)
		return &c15Target{target: target, elem: v.Type().Elem(), recv: v, cap: capacity, desc: fmt.Sprintf("%s(cap %d)", desc, capacity)}
	}
	switch kind % 10 {
	case 6:
		ch := make(chan c15Ints, capacity)
		return mk(ch, ch, "chan c15Ints")
	case 7:
		ch := make(chan []int, capacity)
		return mk(ch, ch, "chan []int")
	case 8:
		ch := make(chan c15Fn, capacity)
		return mk(ch, ch, "chan c15Fn")
	case 9:
		ch := make(chan (<-chan int), capacity)
		return mk(ch, ch, "chan <-chan int")
	case 0:
		ch := make(chan int, capacity)
		return mk(ch, ch, "chan int")
	case 1:
		ch := make(chan string, capacity)
		return mk(ch, ch, "chan string")
	case 2:
		ch := make(chan interface{}, capacity)
		return mk(ch, ch, "chan any")
	case 3:
		ch := make(chan error, capacity)
		return mk(ch, ch, "chan error")
	case 4:
		ch := make(chan *c15T, capacity)
		return mk(ch, ch, "chan *T")
	default:
		ch := make(chan int, capacity)
		return mk(ch, (chan<- int)(ch), "chan<- int")
	}
}

var c15Chan = make(chan int)
var c15Values = []interface{}{7, "s", c15Ptr, c15Err, nil, 3.5, (*c15T)(nil), []int{1, 2}, c15Ints{3}, func() {}, c15Chan}

type c15Sub struct {
	id           int
	key          string
	tgt          *c15Target
	ctx          context.Context
	cancel       context.CancelFunc
	preCancelled bool
	viaCancel    bool // subscribed with SubscribeCancel: cancel is the function it returned, Unsubscribe is the library's job
	// plan
	ready        string // "buffered" | "receiver" | "never"
	cancelDuring bool
	// observations
	recvStart atomic.Int64 // stamp before the receiver starts receiving
	receipts  []interface{}
	recvStamp []int64
	mu        sync.Mutex
}

func (s *c15Sub) String() string {
	c := "no-ctx"
	if s.ctx != nil {
		c = "ctx"
		if s.viaCancel {
			c = "SubscribeCancel"
		}
		if s.preCancelled {
			c = "ctx-precancelled"
		}
	}
	return fmt.Sprintf("sub%d{key=%s %s %s ready=%s cancelDuring=%v}", s.id, s.key, s.tgt.desc, c, s.ready, s.cancelDuring)
}

func init() {
	core.Register(&core.Property{
		ID: "C15",
		Rule: "rounds: 0-6 subscriptions over keys {A,B} x element types {int,string,any,error,*T,send-only int} x {no context, live context, context cancelled before the publish, context cancelled during it; half of the live/cancelled-during ones made with SubscribeCancel (nil or live parent), cancelled through the function it returned and unsubscribed by the library} x target {buffered and empty, unbuffered with a receiver arriving at a random step, never ready}, one Publish/PublishContext(A, v) per round with v in {int,string,*T,error,nil,float,typed nil pointer}, " +
			"the readiness/cancellation events (and an optional cancellation of the publish context) fired in a random order while the publish is in flight; oracle: receipts per subscription vs an independent eligibility table (Go assignability; untyped nil => nilable kinds): eligible-and-ready-and-never-cancelled => exactly 1, ineligible => 0, nobody > 1, " +
			"Publish does not return (publish context live) before an eligible never-cancelled subscription's receiver has even started, Publish returns within the bound once every eligible subscription has received or been cancelled, no panic for any value; registry: duplicate Subscribe (incl. SubscribeCancel on an existing subscription) / unmatched Unsubscribe panic and leave deliveries unchanged, nothing is delivered after Unsubscribe returned; " +
			"readiness-order: 2-5 unbuffered subscriptions (with or without contexts) served by ONE goroutine that receives from them one after the other in a random fixed order, so that each target becomes ready only after the previous one was delivered: Publish returns and each receives once. concurrent-publishers: one publisher per key publishing an increasing sequence, all at once through one Notifier, several ready subscriptions per key: each receives exactly its key's sequence. unsubscribe-during-publish: a target unsubscribed (and re-subscribed under another key) while a publish is parked on it must not receive that publish's value afterwards. non-trivial = a round had at least one eligible and one ineligible subscription or an event during the publish; distinct = distinct (subscription plan, value, event order) signatures",
		Assumptions: []string{"a subscription whose context is cancelled while the publish is in flight may receive 0 or 1 copies", "map iteration order inside the library supplies the internal arrangement; notifier.publish.select is delayed to stretch the gaps between deliveries"},
		Families: []core.Family{
			{Name: "rounds", N: core.TierN(3000, 160000), Batch: 50, Run: c15Round},
			{Name: "registry", N: core.TierN(120, 4800), Batch: 20, Run: c15Registry},
			{Name: "unsubscribe-during-publish", N: core.TierN(32, 1280), Batch: 8, Run: c15UnsubDuring},
			{Name: "concurrent-publishers", N: core.TierN(16, 640), Batch: 4, Run: c15ConcurrentPublishers},
			{Name: "readiness-order", N: core.TierN(200, 8000), Batch: 50, Run: c15ReadinessOrder},
		},
	})
}

func c15Round(c *core.Ctx) {
	var n bigbuff.Notifier
	p := c.NewPerturb(core.PerturbOpts{P: 0, Hot: map[string]float64{"notifier.publish.select": core.Pick(c.Rng, 0, 0.5, 1)}, HotSleep: core.Pick(c.Rng, 20*time.Microsecond, 200*time.Microsecond)})
	defer p.Stop()
	nsubs := c.Rng.IntN(7)
	subs := make([]*c15Sub, nsubs)
	value := c15Values[c.Rng.IntN(len(c15Values))]
	for i := range subs {
		s := &c15Sub{id: i, key: core.Pick(c.Rng, "A", "A", "A", "B")}
		s.ready = core.Pick(c.Rng, "buffered", "receiver", "receiver", "never")
		capacity := 0
		if s.ready == "buffered" {
			capacity = 1
		}
		s.tgt = c15MakeTarget(c.Rng.IntN(10), capacity)
		switch c.Rng.IntN(4) {
		case 0: // no context
		case 1:
			s.ctx, s.cancel = context.WithCancel(context.Background())
		case 2:
			s.ctx, s.cancel = context.WithCancel(context.Background())
			s.cancel()
			s.preCancelled = true
		case 3:
			s.ctx, s.cancel = context.WithCancel(context.Background())
			s.cancelDuring = true
		}
		if s.ready == "never" && s.ctx == nil {
			// a never-ready target without a context would block the publish forever: give it one, cancelled during
			s.ctx, s.cancel = context.WithCancel(context.Background())
			s.cancelDuring = true
		}
		if s.ready == "never" && !s.preCancelled {
			s.cancelDuring = true
		}
		subs[i] = s
		if s.ctx != nil && !s.preCancelled && c.Rng.IntN(2) == 0 {
			// SubscribeCancel: the library derives the subscription's context (from a live parent or from nil) and
			// unsubscribes by itself once the returned function has been called
			s.viaCancel = true
			var parent context.Context
			if c.Rng.IntN(2) == 0 {
				parent = context.Background()
			}
			s.cancel = n.SubscribeCancel(parent, s.key, s.tgt.target)
		} else if s.ctx != nil {
			n.SubscribeContext(s.ctx, s.key, s.tgt.target)
		} else {
			n.Subscribe(s.key, s.tgt.target)
		}
	}
	eligible := func(s *c15Sub) bool {
		return s.key == "A" && !s.preCancelled && accepts(s.tgt.elem, value)
	}
	// publish context
	var pctx context.Context
	var pcancel context.CancelFunc
	cancelPublish := false
	if c.Rng.IntN(3) == 0 {
		pctx, pcancel = context.WithCancel(context.Background())
		cancelPublish = c.Rng.IntN(3) == 0
		defer pcancel()
	}
	roundEnd := make(chan struct{})
	var recvWG sync.WaitGroup
	startReceiver := func(s *c15Sub) {
		recvWG.Add(1)
		go func() {
			defer recvWG.Done()
			for {
				s.recvStart.CompareAndSwap(0, core.Now())
				chosen, v, ok := reflect.Select([]reflect.SelectCase{
					{Dir: reflect.SelectRecv, Chan: s.tgt.recv},
					{Dir: reflect.SelectRecv, Chan: reflect.ValueOf(roundEnd)},
				})
				if chosen != 0 || !ok {
					return
				}
				s.mu.Lock()
				s.receipts = append(s.receipts, v.Interface())
				s.recvStamp = append(s.recvStamp, core.Now())
				s.mu.Unlock()
			}
		}()
	}
	// events fired while the publish is in flight
	type event struct {
		what string
		s    *c15Sub
	}
	var events []event
	for _, s := range subs {
		if s.ready == "receiver" {
			events = append(events, event{"receiver", s})
		}
		if s.cancelDuring {
			events = append(events, event{"cancel", s})
		}
	}
	if cancelPublish {
		events = append(events, event{"cancel-publish", nil})
	}
	c.Rng.Shuffle(len(events), func(i, j int) { events[i], events[j] = events[j], events[i] })
	var pubRet atomic.Int64
	var panicV atomic.Value
	pubCall := core.Now()
	pubDone := core.Go(func() {
		if pv := core.Recover(func() {
			if pctx != nil {
				n.PublishContext(pctx, "A", value)
			} else {
				n.Publish("A", value)
			}
		}); pv != nil {
			panicV.Store(fmt.Sprint(pv))
		}
		pubRet.Store(core.Now())
	})
	var order []string
	for _, e := range events {
		if c.Rng.IntN(2) == 0 {
			time.Sleep(time.Duration(c.Rng.IntN(150)) * time.Microsecond)
		}
		switch e.what {
		case "receiver":
			startReceiver(e.s)
			order = append(order, fmt.Sprintf("recv%d", e.s.id))
		case "cancel":
			e.s.cancel()
			order = append(order, fmt.Sprintf("cancel%d", e.s.id))
		case "cancel-publish":
			pcancel()
			order = append(order, "cancel-publish")
		}
	}
	desc := fmt.Sprintf("value=%s subs=%v events=%v publishCtx=%v", descValue(value), subs, order, pctx != nil)
	if !core.AwaitDone(pubDone, 10000) {
		c.Violate("publish-blocked", "Publish did not return although every eligible subscription has received or been cancelled; %s", desc)
		c.SetDump(core.DumpAll())
		for _, s := range subs {
			if s.cancel != nil {
				s.cancel()
			}
		}
		if pcancel != nil {
			pcancel()
		}
		close(roundEnd)
		return
	}
	if pv := panicV.Load(); pv != nil {
		c.Violate("publish-panic", "Publish panicked: %v; %s", pv, desc)
	}
	// give receivers a moment to record what they already received, then end the round
	for _, s := range subs {
		if eligible(s) && s.ready == "receiver" && !s.cancelDuring && !cancelPublish {
			core.WaitUntil(3000, func() bool { s.mu.Lock(); defer s.mu.Unlock(); return len(s.receipts) >= 1 })
		}
	}
	time.Sleep(50 * time.Microsecond)
	close(roundEnd)
	recvWG.Wait()
	ret := pubRet.Load()
	nEl, nInel := 0, 0
	for _, s := range subs {
		// drain buffered targets
		if s.ready == "buffered" || s.ready == "never" {
			for {
				v, ok := s.tgt.recv.TryRecv()
				if !ok {
					break
				}
				s.receipts = append(s.receipts, v.Interface())
			}
		}
		got := len(s.receipts)
		el := eligible(s)
		if el {
			nEl++
		} else {
			nInel++
		}
		switch {
		case got > 1:
			c.Violate("delivered-twice", "%v received %d copies from one publish; %s", s, got, desc)
		case !el && got != 0:
			c.Violate("ineligible-received", "%v is not eligible (key/type/cancelled context) but received %v; %s", s, s.receipts, desc)
		case el && got == 0 && !s.cancelDuring && !cancelPublish && s.ready != "never":
			c.Violate("eligible-missed", "%v is eligible, ready and never cancelled but received nothing; %s", s, desc)
		}
		if el && got == 1 {
			want := asType(s.tgt.elem, value)
			if !same(reflect.ValueOf(s.receipts[0]), reflect.ValueOf(want.Interface())) && !reflect.DeepEqual(s.receipts[0], want.Interface()) && !(value == nil && isNilInterface(s.receipts[0])) {
				c.Violate("wrong-value", "%v received %v, want %s; %s", s, s.receipts[0], descValue(value), desc)
			}
		}
		// returned before an eligible, never-cancelled subscription's receiver had started
		if el && !s.cancelDuring && !cancelPublish && s.ready == "receiver" {
			if st := s.recvStart.Load(); st > ret {
				c.Violate("returned-early", "Publish returned (stamp %d) before the receiver of eligible %v had started (stamp %d); %s", ret, s, st, desc)
			}
		}
	}
	_ = pubCall
	for _, s := range subs {
		if s.cancel != nil {
			s.cancel()
		}
		if !s.viaCancel {
			n.Unsubscribe(s.key, s.tgt.target)
		}
	}
	core.LibLeaks(2000) // SubscribeCancel's watchers unsubscribe on their own
	c.Op("publish", 1)
	c.Op("subscription", nsubs)
	c.Op("event", len(events))
	if (nEl > 0 && nInel > 0) || len(events) > 0 {
		c.Nontrivial()
	}
	c.Sig(descValue(value), fmt.Sprint(subs), order)
	if c.Index < 3 {
		c.SetHistory(desc)
	}
}

func isNilInterface(v interface{}) bool {
	if v == nil {
		return true
	}
	rv := reflect.ValueOf(v)
	switch rv.Kind() {
	case reflect.Chan, reflect.Func, reflect.Interface, reflect.Map, reflect.Pointer, reflect.Slice:
		return rv.IsNil()
	}
	return false
}

// c15Registry: duplicate Subscribe / unmatched Unsubscribe panic without changing the registry; nothing after Unsubscribe.
func c15Registry(c *core.Ctx) {
	var n bigbuff.Notifier
	chA := make(chan int, 4)
	chB := make(chan int, 4)
	chAny := make(chan interface{}, 4)
	n.Subscribe("A", chA)
	n.Subscribe("B", chB)
	n.Subscribe("A", chAny)
	misuse := core.Pick(c.Rng, "dup-subscribe", "dup-subscribe-ctx", "dup-subscribe-after-cancel", "dup-subscribe-cancel", "dup-subscribe-cancel", "unsub-unknown-target", "unsub-wrong-key", "unsub-twice", "non-chan-target", "recv-only-target")
	var pv interface{}
	switch misuse {
	case "dup-subscribe":
		pv = core.Recover(func() { n.Subscribe("A", chA) })
	case "dup-subscribe-ctx":
		pv = core.Recover(func() { n.SubscribeContext(context.Background(), "A", chA) })
	case "dup-subscribe-after-cancel":
		// a subscription whose context is cancelled but which was not unsubscribed still exists
		n.Unsubscribe("A", chA)
		cctx, ccancel := context.WithCancel(context.Background())
		n.SubscribeContext(cctx, "A", chA)
		ccancel()
		pv = core.Recover(func() {
			if c.Rng.IntN(2) == 0 {
				n.Subscribe("A", chA)
			} else {
				n.SubscribeContext(context.Background(), "A", chA)
			}
		})
		// restore the live subscription the rest of the scenario expects
		n.Unsubscribe("A", chA)
		n.Subscribe("A", chA)
	case "dup-subscribe-cancel":
		// the convenience wrapper on an existing subscription: panics, and whatever it set up on the way (sub-context,
		// unsubscribe watcher) must not touch the subscription that exists
		var parent context.Context
		if c.Rng.IntN(2) == 0 {
			parent = context.Background()
		}
		pv = core.Recover(func() { n.SubscribeCancel(parent, "A", chA) })
		core.LibLeaks(2000) // let anything it started run to its end
		time.Sleep(time.Duration(c.Rng.IntN(300)) * time.Microsecond)
	case "unsub-unknown-target":
		pv = core.Recover(func() { n.Unsubscribe("A", make(chan int)) })
	case "unsub-wrong-key":
		pv = core.Recover(func() { n.Unsubscribe("C", chA) })
	case "unsub-twice":
		tmp := make(chan int, 1)
		n.Subscribe("A", tmp)
		n.Unsubscribe("A", tmp)
		pv = core.Recover(func() { n.Unsubscribe("A", tmp) })
	case "non-chan-target":
		pv = core.Recover(func() { n.Subscribe("A", 5) })
	case "recv-only-target":
		pv = core.Recover(func() { n.Subscribe("A", (<-chan int)(chA)) })
	}
	if pv == nil {
		c.Violate("misuse-unnoticed", "%s did not panic", misuse)
	}
	// the registry is unchanged: A reaches chA and chAny once each, B reaches chB
	if !core.AwaitDone(core.Go(func() {
		n.Publish("A", 1)
		n.Publish("B", 2)
	}), 5000) {
		c.Violate("publish-blocked", "after %s (a panic, recovered by its caller) a Publish to ready targets never returned: the misuse did change the Notifier", misuse)
		c.SetDump(core.DumpAll())
		return
	}
	if len(chA) != 1 || len(chAny) != 1 || len(chB) != 1 {
		c.Violate("registry-changed", "after %s: Publish(A) reached chA %d / chAny %d times, Publish(B) reached chB %d times (want 1 each)", misuse, len(chA), len(chAny), len(chB))
	}
	for _, v := range c15Values {
		if pv := core.Recover(func() { n.Publish("A", v) }); pv != nil {
			c.Violate("publish-panic", "Publish(A, %s) panicked: %v", descValue(v), pv)
		}
		for len(chA) > 0 {
			<-chA
		}
		for len(chAny) > 0 {
			<-chAny
		}
	}
	// after Unsubscribe returns, nothing more is delivered
	n.Unsubscribe("A", chA)
	for len(chB) > 0 {
		<-chB
	}
	n.Publish("A", 3)
	if len(chA) != 0 {
		c.Violate("received-after-unsubscribe", "target received %d values from a publish made after Unsubscribe returned", len(chA))
	}
	if len(chAny) != 1 {
		c.Violate("registry-changed", "the other subscription of the key got %d values after an unrelated Unsubscribe", len(chAny))
	}
	n.Unsubscribe("A", chAny)
	n.Unsubscribe("B", chB)
	n.Publish("A", 4) // no subscribers: must not panic or block
	c.Op("publish", 4+len(c15Values))
	c.Nontrivial()
	c.Sig("registry", misuse)
}

// c15UnsubDuring: a publish is parked on an unready target; Unsubscribe is requested; if it returns while the
// publish is still parked, the target (re-subscribed under another key) must not receive that publish's value.
func c15UnsubDuring(c *core.Ctx) {
	var n bigbuff.Notifier
	ch := make(chan interface{})
	n.Subscribe("A", ch)
	pctx, pcancel := context.WithCancel(context.Background())
	defer pcancel()
	pubDone := core.Go(func() { n.PublishContext(pctx, "A", "for-A") })
	time.Sleep(time.Duration(100+c.Rng.IntN(300)) * time.Microsecond) // let the publish park
	unsubDone := core.Go(func() { n.Unsubscribe("A", ch) })
	early := core.AwaitDone(unsubDone, 30)
	if !early {
		// the registry is locked by the parked publish: end it through its own context
		pcancel()
		if !core.AwaitDone(pubDone, 5000) || !core.AwaitDone(unsubDone, 5000) {
			c.Violate("unsubscribe-blocked", "Unsubscribe did not return after the parked publish was cancelled")
			c.SetDump(core.DumpAll())
			return
		}
	}
	// the target now belongs to key B only
	n.Subscribe("B", ch)
	var got []interface{}
	recvDone := core.Go(func() {
		for len(got) < 1 {
			v, _, ok := core.AwaitChan(ch, 3000)
			if !ok {
				return
			}
			got = append(got, v)
		}
	})
	time.Sleep(100 * time.Microsecond)
	pub2 := core.Go(func() { n.Publish("B", "for-B") })
	core.AwaitDone(recvDone, 5000)
	for _, v := range got {
		if v != "for-B" {
			c.Violate("other-key-received", "a target subscribed only under key B received %v (published to key A) after Unsubscribe(A) had returned (unsubscribe returned while the publish was parked: %v)", v, early)
		}
	}
	pcancel()
	core.AwaitDone(pubDone, 5000)
	// if the first receive consumed the stale value, the B publish may still be parked: drain it
	go func() {
		for {
			if _, _, ok := core.AwaitChan(ch, 200); !ok {
				return
			}
		}
	}()
	if !core.AwaitDone(pub2, 5000) {
		c.Violate("publish-blocked", "Publish(B) did not return")
	}
	c.Op("publish", 2)
	c.Count("unsubscribe_returned_while_parked", map[bool]int{true: 1, false: 0}[early])
	c.Nontrivial()
	c.Sig("unsubduring", early)
}

// c15ConcurrentPublishers: several publishers, one per key, publish their own increasing sequences at the same time
// through one Notifier; every key has several ready subscriptions (each with a receiver). Every subscription receives
// exactly its key's sequence, each value once, in order, and nothing of any other key.
func c15ConcurrentPublishers(c *core.Ctx) {
	var n bigbuff.Notifier
	keys := 2 + c.Rng.IntN(3)
	subsPer := 1 + c.Rng.IntN(6)
	count := 300 + c.Rng.IntN(500)
	type sub struct {
		key  int
		ch   chan int
		got  []int
		done chan struct{}
	}
	var subs []*sub
	for k := 0; k < keys; k++ {
		for i := 0; i < subsPer; i++ {
			s := &sub{key: k, ch: make(chan int, c.Rng.IntN(2)), done: make(chan struct{})}
			subs = append(subs, s)
			if c.Rng.IntN(2) == 0 {
				n.Subscribe(k, s.ch)
			} else {
				n.SubscribeContext(context.Background(), k, s.ch)
			}
			go func() {
				defer close(s.done)
				for v := range s.ch {
					s.got = append(s.got, v)
				}
			}()
		}
	}
	var wg sync.WaitGroup
	for k := 0; k < keys; k++ {
		k := k
		wg.Add(1)
		go func() {
			defer wg.Done()
			for v := 0; v < count; v++ {
				n.Publish(k, k*1000000+v)
			}
		}()
	}
	desc := fmt.Sprintf("%d publishers (one per key) x %d values, %d ready subscriptions per key", keys, count, subsPer)
	if !core.AwaitDone(core.Go(wg.Wait), 30000) {
		c.Violate("publish-blocked", "concurrent publishers did not finish; %s", desc)
		c.SetDump(core.DumpAll())
		return
	}
	for _, s := range subs {
		n.Unsubscribe(s.key, s.ch)
		close(s.ch)
		<-s.done
	}
	for i, s := range subs {
		if len(s.got) != count {
			c.Violate("eligible-missed", "subscription %d of key %d received %d values, its key's publisher published %d; %s", i, s.key, len(s.got), count, desc)
			continue
		}
		for j, v := range s.got {
			if v != s.key*1000000+j {
				c.Violate("wrong-value", "subscription %d of key %d received %d as its value #%d, want %d (its own key's sequence, each value once, in order); %s", i, s.key, v, j, s.key*1000000+j, desc)
				break
			}
		}
	}
	c.Op("publish", keys*count)
	c.Nontrivial()
	c.Sig("concurrent-publishers", keys, subsPer)
}

// c15ReadinessOrder: the targets of one key become ready one after the other, in an order the Notifier cannot know:
// a single goroutine receives from them sequentially. Publish has to deliver to whichever target is ready.
func c15ReadinessOrder(c *core.Ctx) {
	var n bigbuff.Notifier
	k := 2 + c.Rng.IntN(4)
	withCtx := c.Rng.IntN(3) // 0: plain Subscribe everywhere, 1: contexts everywhere, 2: mixed
	chans := make([]chan int, k)
	for i := range chans {
		chans[i] = make(chan int)
		if withCtx == 1 || (withCtx == 2 && c.Rng.IntN(2) == 0) {
			n.SubscribeContext(context.Background(), "k", chans[i])
		} else {
			n.Subscribe("k", chans[i])
		}
	}
	order := c.Rng.Perm(k)
	got := make([]int, k)
	received := core.Go(func() {
		for _, i := range order {
			got[i] = <-chans[i]
		}
	})
	var pctx context.Context
	if c.Rng.IntN(2) == 0 {
		pctx = context.Background()
	}
	published := core.Go(func() {
		if pctx != nil {
			n.PublishContext(pctx, "k", 7)
		} else {
			n.Publish("k", 7)
		}
	})
	desc := fmt.Sprintf("%d unbuffered subscriptions (contexts: %d), one goroutine receiving in the order %v, publish context: %v", k, withCtx, order, pctx != nil)
	if !core.AwaitDone(published, 5000) {
		c.Violate("publish-blocked", "Publish did not return although a target was ready at every moment (each becomes ready once the previous one has been delivered); %s", desc)
		c.SetDump(core.DumpAll())
		return
	}
	if !core.AwaitDone(received, 3000) {
		c.Violate("eligible-missed", "Publish returned but not every subscription has received; %s", desc)
		return
	}
	for i, v := range got {
		if v != 7 {
			c.Violate("wrong-value", "subscription %d received %d, want 7; %s", i, v, desc)
		}
	}
	for i := range chans {
		n.Unsubscribe("k", chans[i])
	}
	c.Op("publish", 1)
	c.Nontrivial()
	c.Sig("readiness-order", k, withCtx, order, pctx != nil)
}
