package props

import (
	"fmt"
	"strings"
	"sync/atomic"

	"verif/core"
)

// C07 — ChanPubSub: no deadlock and no false invariant panic under dynamic membership.

var c07HoldSend = []string{"pubsub.send.excl", "pubsub.send.counted", "pubsub.send.armed", "caster.send.armed", "caster.send.sent"}
var c07HoldUnsub = []string{"pubsub.unsub.spin", "pubsub.unsub.decided", "pubsub.unsub.counted", "caster.add.neg.applied"}

func init() {
	core.Register(&core.Property{
		ID: "C07",
		Rule: "the C06 workload (1-4 senders, 0-12 subscriptions over every unsubscribe route: manual Add(-1) after k / on timer / before ever receiving, iterator break, context cancel while iterating, cancel without iterating, cancel then iterate) under seeded delays, " +
			"plus directed windows: each of the 5 Send-side sites is held until an unsubscriber reaches each of the 4 unsubscribe-side sites (and the mirror image: the unsubscriber is held until the Send reaches the site), 40 combinations, GOMAXPROCS 1..16; " +
			"oracle: every call returns within 30000 heartbeats (goroutine dump otherwise), no call panics, final Add(0) == subscribes - unsubscribes == 0 (after asynchronous AfterFunc unsubscribes), a fresh subscriber round trip works afterwards. " +
			"non-trivial = at least one directed window was entered or a subscriber left while sends were in flight; distinct = distinct (hold site, until site, membership) signatures",
		Assumptions: []string{
			"subscribers follow the documented contract; the harness never receives after unsubscribing and always Waits after receiving",
			"schedules are explored by delay injection and one-window-at-a-time direction, not enumerated at the granularity of individual atomics",
		},
		Families: []core.Family{
			{Name: "random", N: core.TierN(300, 16000), Batch: 25, Run: c07Random},
			{Name: "directed-windows", N: core.TierN(160, 6400), Batch: 20, Run: c07Directed},
		},
	})
}

func c07Report(c *core.Ctx, h *psHist) {
	if h.blocked != "" {
		c.Violate("blocked", "%s", firstLineOf(h.blocked))
		c.SetDump(h.blocked)
		return
	}
	for _, pm := range h.panics {
		key := "panic"
		if strings.Contains(pm, "bigbuff: chanpubsub") || strings.Contains(pm, "bigbuff: chancaster") {
			key = "false-invariant-panic"
		}
		c.Violate(key, "a call panicked although the contract was obeyed: %s", pm)
	}
	if len(h.panics) > 0 {
		return
	}
	if h.finalAdd != 0 {
		c.Violate("final-count", "subscriber count is %d after every subscription was withdrawn", h.finalAdd)
	} else if !h.roundOK {
		c.Violate("instance-broken", "post-scenario %s", h.roundMsg)
	}
}

func c07Random(c *core.Ctx) {
	o := psOpts{
		senders:   1 + c.Rng.IntN(4),
		perSender: 5 + c.Rng.IntN(30),
		subs:      c.Rng.IntN(13),
		sentinel:  c.Rng.IntN(3) == 0,
		kinds:     psSubKinds,
		joinLate:  true,
	}
	c.Param("opts", map[string]any{"senders": o.senders, "per_sender": o.perSender, "subs": o.subs, "sentinel": o.sentinel})
	p := c.RandomPerturb(pubsubSites)
	h := runPubSub(c, o)
	p.Stop()
	c07Report(c, h)
	left := 0
	for _, s := range h.subs {
		if len(s.receipts) < len(h.sends) {
			left++
		}
	}
	c.Op("send", len(h.sends))
	c.Op("subscription", len(h.subs))
	if left > 0 {
		c.Nontrivial()
	}
	sum := h.summary()
	c.Sig(sum)
	if c.Index < 1 {
		c.SetHistory(sum)
	}
}

func c07Directed(c *core.Ctx) {
	combo := c.Index % 40
	var hold, until string
	if combo < 20 {
		hold, until = c07HoldSend[combo/4], c07HoldUnsub[combo%4]
	} else {
		combo -= 20
		hold, until = c07HoldUnsub[combo/5], c07HoldSend[combo%5]
	}
	o := psOpts{
		senders:   1 + c.Rng.IntN(2),
		perSender: 6 + c.Rng.IntN(10),
		subs:      2 + c.Rng.IntN(6),
		sentinel:  c.Rng.IntN(2) == 0,
		kinds:     []string{"manual", "manual-timer", "manual-immediate", "iter", "iter-cancel", "iter-cancel-timer", "iter-never", "iter-cancel-then-run", "iter-precancelled", "iter-panic", "iter-nil-yield"},
		joinLate:  true,
	}
	p := c.NewPerturb(core.PerturbOpts{P: core.Pick(c.Rng, 0, 0.05)})
	var holds, hit, missed atomic.Int64
	p.On(hold, func(int64) {
		if holds.Add(1) > 12 {
			return // bounded number of windows per scenario
		}
		start := p.Hits(until)
		if core.WaitUntil(40, func() bool { return p.Hits(until) > start }) {
			hit.Add(1)
		} else {
			missed.Add(1)
		}
	})
	h := runPubSub(c, o)
	p.Stop()
	c07Report(c, h)
	c.R.WinHit += int(hit.Load())
	c.R.WinMissed += int(missed.Load())
	c.Count("window_hit["+hold+" until "+until+"]", int(hit.Load()))
	c.Count("window_missed["+hold+" until "+until+"]", int(missed.Load()))
	c.Op("send", len(h.sends))
	c.Op("subscription", len(h.subs))
	if hit.Load() > 0 {
		c.Nontrivial()
	}
	c.Param("hold", hold)
	c.Param("until", until)
	c.Sig(hold, until, hit.Load() > 0, h.summary())
	if c.Index < 2 {
		c.SetHistory(fmt.Sprintf("hold %s until %s: windows entered=%d missed=%d; %v", hold, until, hit.Load(), missed.Load(), h.summary()))
	}
}
