#!/usr/bin/env python3
"""Dev tool: tools/gen_sweeps.py <quick-log>... -- <thorough-log>...  -> tools/SWEEPS.md (table for DESIGN 10.5)."""
import re, sys, os
V = os.path.dirname(os.path.dirname(os.path.abspath(__file__)))
args = sys.argv[1:]
sep = args.index('--') if '--' in args else len(args)
logs = {'quick': args[:sep], 'thorough': args[sep + 1:]}
rx = re.compile(r'rc=(\d+) (C\d+) (quick|thorough) seed=(\d+): scenarios=(\d+) events=(\d+) distinct_nontrivial=(\d+) inconclusive=(\d+) violations=(\d+) known=(\d+) wall=([\d.]+)s')
data = {}
for tier, files in logs.items():
    for f in files:
        for l in open(f, errors='replace'):
            m = rx.match(l)
            if m and m.group(3) == tier:
                data.setdefault((m.group(2), tier), []).append(dict(rc=int(m.group(1)), seed=int(m.group(4)), scen=int(m.group(5)), ev=int(m.group(6)), inc=int(m.group(8)), viol=int(m.group(9)), known=int(m.group(10)), wall=float(m.group(11))))
out = ['| property | tier | seeds | runs not exit 0 | scenarios per run | events per run | inconclusive scenarios (all runs) | wall per run |', '|---|---|---|---|---|---|---|---|']
for (p, tier) in sorted(data, key=lambda k: (k[0], k[1])):
    rs = data[(p, tier)]
    seeds = sorted(set(r['seed'] for r in rs))
    bad = sum(1 for r in rs if r['rc'] != 0)
    out.append('| %s | %s | %s | %d | %d | %d–%d | %d | %.0f–%.0f s |' % (p, tier, ','.join(map(str, seeds)), bad, rs[0]['scen'], min(r['ev'] for r in rs), max(r['ev'] for r in rs), sum(r['inc'] for r in rs), min(r['wall'] for r in rs), max(r['wall'] for r in rs)))
open(os.path.join(V, 'tools', 'SWEEPS.md'), 'w').write('\n'.join(out) + '\n')
print('\n'.join(out[:6]))
